package main

import (
	"fmt"
	"go/token"
	"go/types"
	"sort"
	"strings"

	"golang.org/x/tools/go/ssa"
)

// Provenance of reference-like SSA values (slices, maps, pointers).
//
// origin kinds:
//   fresh     – storage created in this activation (make, literal, clone, append onto nil/fresh, ...)
//   param i   – the i-th parameter (or storage reachable from it) of the enclosing function
//   borrowed  – storage owned by someone else: tagged with a human-readable reason
//   unknown   – the walk gave up

type originKind int

const (
	oFresh originKind = iota
	oParam
	oBorrowed
	oUnknown
)

type origin struct {
	kind   originKind
	param  int    // for oParam
	reason string // for oBorrowed / oUnknown
}

type originSet map[origin]bool

func (s originSet) add(o origin)        { s[o] = true }
func (s originSet) addAll(t originSet)  { for o := range t { s[o] = true } }
func (s originSet) onlyFresh() bool {
	for o := range s {
		if o.kind != oFresh {
			return false
		}
	}
	return true
}
func (s originSet) borrowed() []string {
	var out []string
	for o := range s {
		if o.kind == oBorrowed {
			out = append(out, o.reason)
		}
	}
	sort.Strings(out)
	return out
}
func (s originSet) params() []int {
	var out []int
	for o := range s {
		if o.kind == oParam {
			out = append(out, o.param)
		}
	}
	sort.Ints(out)
	return out
}
func (s originSet) unknown() []string {
	var out []string
	for o := range s {
		if o.kind == oUnknown {
			out = append(out, o.reason)
		}
	}
	sort.Strings(out)
	return out
}
func (s originSet) String() string {
	var parts []string
	for o := range s {
		switch o.kind {
		case oFresh:
			parts = append(parts, "fresh")
		case oParam:
			parts = append(parts, fmt.Sprintf("param#%d", o.param))
		case oBorrowed:
			parts = append(parts, "borrowed("+o.reason+")")
		default:
			parts = append(parts, "unknown("+o.reason+")")
		}
	}
	sort.Strings(parts)
	return strings.Join(parts, ", ")
}

// provPolicy lets a rule say which loads are borrowed and which are owned.
type provPolicy struct {
	// fieldLoad classifies a load of field f through a pointer that is not a
	// local allocation (e.g. r.Params). Return nil to continue with the
	// provenance of the base pointer.
	fieldLoad func(base ssa.Value, structT *types.Named, field *types.Var) *origin
	// callResult classifies the result (index idx of the tuple, or -1) of a
	// call. Return nil to use summaries / defaults.
	callResult func(call *ssa.Call, callee *ssa.Function, idx int) originSet
	// structField: provenance of field f of a struct VALUE whose own origin is o.
	// Default: same origin (a field of borrowed storage is borrowed).
	// paramIsBorrowed: parameters of these functions are borrowed rather than "param".
}

type provEngine struct {
	elemMode int // > 0 while the origin of a container's elements, not of the container, is asked for
	prog     *ssa.Program
	policy   provPolicy
	retSum   map[*ssa.Function][]originSet // per result index
	inFlight map[*ssa.Function]bool
	memo     map[ssa.Value]originSet
	depth    int
}

func newProvEngine(prog *ssa.Program, pol provPolicy) *provEngine {
	return &provEngine{prog: prog, policy: pol, retSum: map[*ssa.Function][]originSet{}, inFlight: map[*ssa.Function]bool{}, memo: map[ssa.Value]originSet{}}
}

func paramIndex(fn *ssa.Function, p *ssa.Parameter) int {
	for i, q := range fn.Params {
		if q == p {
			return i
		}
	}
	return -1
}

// stdlib knowledge: functions returning fresh storage, and functions whose
// result may alias an argument.
var freshFuncs = map[string]bool{
	"slices.Clone": true, "maps.Clone": true, "slices.Concat": true, "slices.Collect": true, "slices.Sorted": true, "slices.AppendSeq": false,
	"strings.Split": true, "strings.Fields": true, "strings.SplitN": true, "strings.FieldsFunc": true, "strings.SplitAfter": true,
	"os.Environ": true, "maps.Collect": true, "bytes.Clone": true, "slices.Repeat": true,
}

// shallowCopies: the result is new storage whose elements are the argument's elements — pointers among them still point
// into whatever the argument's did.
var shallowCopies = map[string]bool{"slices.Clone": true, "maps.Clone": true, "slices.Concat": true, "slices.Repeat": true, "maps.Collect": false}

// aliasFuncs: result aliases argument index.
var aliasFuncs = map[string]int{
	"slices.Insert": 0, "slices.Delete": 0, "slices.DeleteFunc": 0, "slices.Replace": 0, "slices.Compact": 0, "slices.CompactFunc": 0,
	"slices.Grow": 0, "slices.Clip": 0,
}

// writeFuncs: functions that store through the given argument indexes.
var writeFuncs = map[string][]int{
	"slices.Insert": {0}, "slices.Delete": {0}, "slices.DeleteFunc": {0}, "slices.Replace": {0}, "slices.Compact": {0}, "slices.CompactFunc": {0},
	"slices.Sort": {0}, "slices.SortFunc": {0}, "slices.SortStableFunc": {0}, "slices.Reverse": {0},
	"sort.Strings": {0}, "sort.Ints": {0}, "sort.Sort": {0}, "sort.Stable": {0}, "sort.Slice": {0}, "sort.SliceStable": {0},
	"maps.Copy": {0}, "maps.DeleteFunc": {0}, "maps.Insert": {0},
}

func ssaFuncName(fn *ssa.Function) string {
	if fn == nil {
		return ""
	}
	o := fn
	if fn.Origin() != nil {
		o = fn.Origin()
	}
	if o.Pkg == nil {
		if o.Object() != nil && o.Object().Pkg() != nil {
			return o.Object().Pkg().Path() + "." + o.Name()
		}
		return o.Name()
	}
	if recv := o.Signature.Recv(); recv != nil {
		return o.Pkg.Pkg.Path() + ".(" + typeName(recv.Type()) + ")." + o.Name()
	}
	return o.Pkg.Pkg.Path() + "." + o.Name()
}

func isRefType(t types.Type) bool {
	switch t.Underlying().(type) {
	case *types.Slice, *types.Map, *types.Pointer, *types.Interface, *types.Struct, *types.Chan, *types.Signature:
		return true
	}
	return false
}

// of computes the origins of reference value v.
func (e *provEngine) of(v ssa.Value) originSet {
	return e.walk(v, map[ssa.Value]bool{})
}

func single(o origin) originSet { return originSet{o: true} }

func (e *provEngine) walk(v ssa.Value, seen map[ssa.Value]bool) originSet {
	if seen[v] {
		return originSet{}
	}
	seen[v] = true
	out := originSet{}
	switch x := v.(type) {
	case *ssa.Const:
		out.add(origin{kind: oFresh})
	case *ssa.MakeSlice, *ssa.MakeMap, *ssa.MakeChan:
		out.add(origin{kind: oFresh})
	case *ssa.Alloc:
		out.add(origin{kind: oFresh})
	case *ssa.Slice:
		out.addAll(e.walk(x.X, seen))
	case *ssa.Phi:
		for _, ed := range x.Edges {
			out.addAll(e.walk(ed, seen))
		}
	case *ssa.ChangeType:
		out.addAll(e.walk(x.X, seen))
	case *ssa.Convert:
		// string <-> []byte conversions copy
		out.add(origin{kind: oFresh})
	case *ssa.MakeInterface:
		out.addAll(e.walk(x.X, seen))
	case *ssa.ChangeInterface:
		out.addAll(e.walk(x.X, seen))
	case *ssa.TypeAssert:
		out.addAll(e.walk(x.X, seen))
	case *ssa.Parameter:
		out.add(origin{kind: oParam, param: paramIndex(x.Parent(), x)})
	case *ssa.FreeVar:
		// resolve through the closure's creation sites
		fn := x.Parent()
		idx := -1
		for i, fv := range fn.FreeVars {
			if fv == x {
				idx = i
			}
		}
		resolved := false
		if parent := fn.Parent(); parent != nil && idx >= 0 {
			for _, b := range parent.Blocks {
				for _, ins := range b.Instrs {
					if mc, ok := ins.(*ssa.MakeClosure); ok && mc.Fn == fn && idx < len(mc.Bindings) {
						out.addAll(e.walk(mc.Bindings[idx], seen))
						resolved = true
					}
				}
			}
		}
		if !resolved {
			out.add(origin{kind: oUnknown, reason: "free variable " + x.Name()})
		}
	case *ssa.Extract:
		if call, ok := x.Tuple.(*ssa.Call); ok {
			out.addAll(e.callResult(call, x.Index, seen))
		} else {
			out.addAll(e.walk(x.Tuple, seen))
		}
	case *ssa.Call:
		out.addAll(e.callResult(x, -1, seen))
	case *ssa.FieldAddr:
		// the address of a field: same storage as the struct pointed to
		out.addAll(e.walk(x.X, seen))
	case *ssa.IndexAddr:
		out.addAll(e.walk(x.X, seen))
	case *ssa.Field:
		// field of a struct value
		out.addAll(e.structValueField(x.X, x.Field, x, seen))
	case *ssa.Index:
		out.addAll(e.walk(x.X, seen))
	case *ssa.Lookup:
		out.addAll(e.walk(x.X, seen))
	case *ssa.UnOp:
		if x.Op != token.MUL {
			out.add(origin{kind: oFresh})
			break
		}
		out.addAll(e.load(x, seen))
	case *ssa.MakeClosure, *ssa.Function, *ssa.Builtin, *ssa.Global:
		if g, ok := x.(*ssa.Global); ok {
			out.add(origin{kind: oBorrowed, reason: "package variable " + g.Name()})
		} else {
			out.add(origin{kind: oFresh})
		}
	case *ssa.BinOp:
		out.add(origin{kind: oFresh})
	case *ssa.Next, *ssa.Range:
		out.add(origin{kind: oUnknown, reason: "range value"})
	default:
		out.add(origin{kind: oUnknown, reason: fmt.Sprintf("%T", v)})
	}
	return out
}

// load: provenance of the value loaded by `*addr`.
func (e *provEngine) load(ld *ssa.UnOp, seen map[ssa.Value]bool) originSet {
	out := originSet{}
	switch a := ld.X.(type) {
	case *ssa.FieldAddr:
		st := namedOf(a.X.Type())
		var fv *types.Var
		if s, ok := derefStruct(a.X.Type()); ok {
			fv = s.Field(a.Field)
		}
		if alloc, ok := a.X.(*ssa.Alloc); ok {
			// local struct: reaching stores to this field
			vals, whole, unknown := reachingFieldStores(alloc, a.Field, ld)
			for _, sv := range vals {
				out.addAll(e.walk(sv, seen))
			}
			for _, w := range whole {
				out.addAll(e.structValueField(w, a.Field, ld, seen))
			}
			if unknown {
				out.add(origin{kind: oUnknown, reason: "local struct escapes before the load"})
			}
			if len(vals) == 0 && len(whole) == 0 && !unknown {
				out.add(origin{kind: oFresh}) // zero value
			}
			return out
		}
		if e.policy.fieldLoad != nil && fv != nil {
			if o := e.policy.fieldLoad(a.X, st, fv); o != nil {
				out.add(*o)
				return out
			}
		}
		// field of storage pointed to by something else: inherits that storage's origin
		out.addAll(e.walk(a.X, seen))
	case *ssa.IndexAddr:
		// an element that is itself a reference (a pointer, an interface, a slice, a map) points where the element
		// of the copied container pointed: follow shallow copies to their source
		if isElemRef(ld.Type()) {
			e.elemMode++
			out.addAll(e.walk(a.X, map[ssa.Value]bool{}))
			e.elemMode--
		} else {
			out.addAll(e.walk(a.X, seen))
		}
	case *ssa.Alloc:
		// load of a whole local: union of stored values
		for _, sv := range cellStores(a) {
			out.addAll(e.walk(sv, seen))
		}
		if len(out) == 0 {
			out.add(origin{kind: oFresh})
		}
	case *ssa.Global:
		out.add(origin{kind: oBorrowed, reason: "package variable " + a.Name()})
	case *ssa.FreeVar:
		// a captured variable: the closure holds a pointer to the enclosing
		// function's cell; the loaded value is whatever was stored there
		if cell := freeVarCell(a); cell != nil {
			n := 0
			for _, sv := range cellStores(cell) {
				out.addAll(e.walk(sv, seen))
				n++
			}
			if n == 0 {
				out.add(origin{kind: oFresh})
			}
		} else {
			out.addAll(e.walk(ld.X, seen))
		}
	default:
		out.addAll(e.walk(ld.X, seen))
	}
	return out
}

// freeVarCell resolves a free variable that captures a local variable by
// reference to the Alloc of that variable in an enclosing function.
func freeVarCell(fv *ssa.FreeVar) *ssa.Alloc {
	fn := fv.Parent()
	idx := -1
	for i, x := range fn.FreeVars {
		if x == fv {
			idx = i
		}
	}
	parent := fn.Parent()
	if parent == nil || idx < 0 {
		return nil
	}
	for _, b := range parent.Blocks {
		for _, ins := range b.Instrs {
			if mc, ok := ins.(*ssa.MakeClosure); ok && mc.Fn == fn && idx < len(mc.Bindings) {
				switch bnd := mc.Bindings[idx].(type) {
				case *ssa.Alloc:
					return bnd
				case *ssa.FreeVar:
					return freeVarCell(bnd)
				}
				return nil
			}
		}
	}
	return nil
}

// cellStores returns every value stored into the cell, from the owning
// function and from closures that captured it.
func cellStores(cell *ssa.Alloc) []ssa.Value {
	var out []ssa.Value
	seen := map[ssa.Value]bool{}
	var visit func(ptr ssa.Value)
	visit = func(ptr ssa.Value) {
		if seen[ptr] || ptr.Referrers() == nil {
			return
		}
		seen[ptr] = true
		for _, ref := range *ptr.Referrers() {
			switch u := ref.(type) {
			case *ssa.Store:
				if u.Addr == ptr {
					out = append(out, u.Val)
				}
			case *ssa.MakeClosure:
				inner := u.Fn.(*ssa.Function)
				for i, b := range u.Bindings {
					if b == ptr && i < len(inner.FreeVars) {
						visit(inner.FreeVars[i])
					}
				}
			}
		}
	}
	visit(cell)
	return out
}

func derefStruct(t types.Type) (*types.Struct, bool) {
	if p, ok := t.Underlying().(*types.Pointer); ok {
		t = p.Elem()
	}
	s, ok := t.Underlying().(*types.Struct)
	return s, ok
}

// structValueField: provenance of field idx of struct value sv (at instruction at).
func (e *provEngine) structValueField(sv ssa.Value, idx int, at ssa.Instruction, seen map[ssa.Value]bool) originSet {
	out := originSet{}
	switch x := sv.(type) {
	case *ssa.UnOp:
		if x.Op == token.MUL {
			if alloc, ok := x.X.(*ssa.Alloc); ok {
				vals, whole, unknown := reachingFieldStores(alloc, idx, x)
				for _, v := range vals {
					out.addAll(e.walk(v, seen))
				}
				for _, w := range whole {
					if w != sv {
						out.addAll(e.structValueField(w, idx, x, seen))
					}
				}
				if unknown {
					out.add(origin{kind: oUnknown, reason: "local struct escapes"})
				}
				if len(out) == 0 {
					out.add(origin{kind: oFresh})
				}
				return out
			}
			// load of a struct through a pointer: fields live where the pointer points
			return e.walk(x.X, seen)
		}
	case *ssa.Phi:
		for _, ed := range x.Edges {
			if !seen[ed] {
				seen[ed] = true
				out.addAll(e.structValueField(ed, idx, at, seen))
			}
		}
		return out
	case *ssa.Field:
		// nested struct (embedded): provenance of the outer field
		return e.structValueField(x.X, x.Field, at, seen)
	}
	// parameter, call result, extract: a field of that value has the value's origin
	return e.walk(sv, seen)
}

// reachingFieldStores finds, by a backward walk over the SSA CFG from `at`,
// the values most recently stored to field idx of the local struct alloc:
// direct field stores, and whole-struct stores (returned separately). unknown
// is set when the struct's address escapes to a call before the load.
func reachingFieldStores(alloc *ssa.Alloc, idx int, at ssa.Instruction) (vals []ssa.Value, whole []ssa.Value, unknown bool) {
	type key struct {
		b *ssa.BasicBlock
	}
	visited := map[*ssa.BasicBlock]bool{}
	isFieldAddr := func(v ssa.Value) bool {
		fa, ok := v.(*ssa.FieldAddr)
		return ok && fa.X == alloc && fa.Field == idx
	}
	// scan block b backwards starting before index from; returns true if a killing store was found
	var scan func(b *ssa.BasicBlock, from int)
	scan = func(b *ssa.BasicBlock, from int) {
		for i := from; i >= 0; i-- {
			switch ins := b.Instrs[i].(type) {
			case *ssa.Store:
				if isFieldAddr(ins.Addr) {
					vals = append(vals, ins.Val)
					return
				}
				if ins.Addr == alloc {
					whole = append(whole, ins.Val)
					return
				}
			case *ssa.Call:
				for _, a := range ins.Call.Args {
					if a == alloc {
						unknown = true
					}
				}
			}
		}
		if len(b.Preds) == 0 {
			return // reached entry: zero value
		}
		for _, p := range b.Preds {
			if !visited[p] {
				visited[p] = true
				scan(p, len(p.Instrs)-1)
			}
		}
	}
	b := at.Block()
	pos := -1
	for i, ins := range b.Instrs {
		if ins == at {
			pos = i
		}
	}
	scan(b, pos-1)
	return
}

// callResult: provenance of result idx (-1 for a single result) of a call.
func (e *provEngine) callResult(call *ssa.Call, idx int, seen map[ssa.Value]bool) originSet {
	out := originSet{}
	common := call.Common()
	if b, ok := common.Value.(*ssa.Builtin); ok {
		switch b.Name() {
		case "append":
			if len(common.Args) > 0 {
				base := e.walk(common.Args[0], seen)
				out.addAll(base)
				out.add(origin{kind: oFresh})
				// the elements that were appended point where they pointed
				if e.elemMode > 0 && len(common.Args) > 1 {
					out.addAll(e.walk(common.Args[1], seen))
				}
			}
			return out
		default:
			out.add(origin{kind: oFresh})
			return out
		}
	}
	callee := common.StaticCallee()
	if e.policy.callResult != nil {
		if o := e.policy.callResult(call, callee, idx); o != nil {
			return o
		}
	}
	if callee == nil {
		// dynamic call (interface method or func value)
		out.add(origin{kind: oUnknown, reason: "result of dynamic call " + common.String()})
		return out
	}
	name := ssaFuncName(callee)
	if freshFuncs[name] {
		out.add(origin{kind: oFresh})
		// a shallow copy: the container is new, what its elements point to is not
		if e.elemMode > 0 && shallowCopies[name] {
			for _, a := range common.Args {
				if isRefType(a.Type()) {
					out.addAll(e.walk(a, seen))
				}
			}
		}
		return out
	}
	if ai, ok := aliasFuncs[name]; ok && ai < len(common.Args) {
		out.addAll(e.walk(common.Args[ai], seen))
		return out
	}
	if callee.Blocks == nil {
		// external without body: assume fresh for value-returning std functions
		out.add(origin{kind: oFresh})
		return out
	}
	// module function (or std with body): use its return summary, mapping params to args
	sum := e.returnSummary(callee)
	ri := idx
	if ri < 0 {
		ri = 0
	}
	if ri >= len(sum) {
		out.add(origin{kind: oUnknown, reason: "no summary for " + name})
		return out
	}
	for o := range sum[ri] {
		switch o.kind {
		case oParam:
			if o.param < len(common.Args) {
				out.addAll(e.walk(common.Args[o.param], seen))
			}
		default:
			out.add(o)
		}
	}
	return out
}

// returnSummary computes the origins of each result of fn in terms of its
// own parameters (fixpoint-free: recursion yields the empty set).
func (e *provEngine) returnSummary(fn *ssa.Function) []originSet {
	if s, ok := e.retSum[fn]; ok {
		return s
	}
	n := fn.Signature.Results().Len()
	sum := make([]originSet, n)
	for i := range sum {
		sum[i] = originSet{}
	}
	if e.inFlight[fn] || e.depth > 6 {
		return sum
	}
	// std library functions with bodies: do not analyse deeply, assume fresh
	if fn.Pkg != nil && !strings.HasPrefix(fn.Pkg.Pkg.Path(), modPath) {
		for i := range sum {
			sum[i].add(origin{kind: oFresh})
		}
		e.retSum[fn] = sum
		return sum
	}
	e.inFlight[fn] = true
	e.depth++
	for _, b := range fn.Blocks {
		for _, ins := range b.Instrs {
			ret, ok := ins.(*ssa.Return)
			if !ok {
				continue
			}
			for i, rv := range ret.Results {
				if i < n && isRefType(rv.Type()) {
					sum[i].addAll(e.of(rv))
				} else if i < n {
					sum[i].add(origin{kind: oFresh})
				}
			}
		}
	}
	e.depth--
	delete(e.inFlight, fn)
	e.retSum[fn] = sum
	return sum
}

// ---------------------------------------------------------------------------
// Write sites.

type writeSite struct {
	fn        *ssa.Function
	instr     ssa.Instruction
	container ssa.Value // the slice/map/pointer written through
	kind      string    // "element store", "map update", "delete", "clear", "copy", "append", "call <f>"
}

// writeSites enumerates the stores through reference values in fn.
// fieldStores includes stores to struct fields through pointers (for the AST rule).
func writeSites(fn *ssa.Function, fieldStores bool) []writeSite {
	var out []writeSite
	for _, b := range fn.Blocks {
		for _, ins := range b.Instrs {
			switch x := ins.(type) {
			case *ssa.Store:
				switch a := x.Addr.(type) {
				case *ssa.IndexAddr:
					// element store; skip arrays that are local allocs
					out = append(out, writeSite{fn, ins, a.X, "element store"})
				case *ssa.FieldAddr:
					if fieldStores {
						out = append(out, writeSite{fn, ins, a.X, "field store ." + fieldNameOf(a)})
					}
				case *ssa.Alloc, *ssa.Global, *ssa.FreeVar:
					// plain local / package / captured variable assignment
				default:
					// *p = v through some other pointer: overwrites the whole pointee
					if fieldStores {
						if _, isPtr := x.Addr.Type().Underlying().(*types.Pointer); isPtr {
							out = append(out, writeSite{fn, ins, x.Addr, "whole-value store"})
						}
					}
				}
			case *ssa.MapUpdate:
				out = append(out, writeSite{fn, ins, x.Map, "map update"})
			case *ssa.Call:
				c := x.Common()
				if bi, ok := c.Value.(*ssa.Builtin); ok {
					switch bi.Name() {
					case "delete", "clear":
						if len(c.Args) > 0 {
							out = append(out, writeSite{fn, ins, c.Args[0], bi.Name()})
						}
					case "copy":
						if len(c.Args) > 0 {
							out = append(out, writeSite{fn, ins, c.Args[0], "copy into"})
						}
					case "append":
						if len(c.Args) > 0 {
							out = append(out, writeSite{fn, ins, c.Args[0], "append"})
						}
					}
					continue
				}
				if callee := c.StaticCallee(); callee != nil {
					if idxs, ok := writeFuncs[ssaFuncName(callee)]; ok {
						for _, i := range idxs {
							if i < len(c.Args) {
								out = append(out, writeSite{fn, ins, c.Args[i], "call " + ssaFuncName(callee)})
							}
						}
					}
				}
			}
		}
	}
	return out
}

func fieldNameOf(fa *ssa.FieldAddr) string {
	if s, ok := derefStruct(fa.X.Type()); ok {
		return s.Field(fa.Field).Name()
	}
	return "?"
}

// writesThroughSummary computes, for module functions, which parameters they
// may store through (directly or via callees), to a fixpoint.
func writesThroughSummary(e *provEngine, fns []*ssa.Function, fieldStores bool) map[*ssa.Function]map[int]bool {
	sum := map[*ssa.Function]map[int]bool{}
	for _, fn := range fns {
		sum[fn] = map[int]bool{}
	}
	for changed := true; changed; {
		changed = false
		for _, fn := range fns {
			mark := func(v ssa.Value) {
				for _, pi := range e.of(v).params() {
					if !sum[fn][pi] {
						sum[fn][pi] = true
						changed = true
					}
				}
			}
			for _, ws := range writeSites(fn, fieldStores) {
				if ws.kind == "append" {
					// append is judged at the site where the origin is known — except when its base is a
					// reslice (x[:0], x[:n]) of what the caller handed in: such an append is certain to
					// write into the caller's backing array (the "filter in place" idiom)
					if !appendBaseIsReslice(ws.container) {
						continue
					}
				}
				mark(ws.container)
			}
			for _, b := range fn.Blocks {
				for _, ins := range b.Instrs {
					call, ok := ins.(*ssa.Call)
					if !ok {
						continue
					}
					callee := call.Common().StaticCallee()
					if callee == nil || sum[callee] == nil {
						continue
					}
					for pi := range sum[callee] {
						if pi < len(call.Common().Args) {
							mark(call.Common().Args[pi])
						}
					}
				}
			}
		}
	}
	return sum
}

// moduleFunctions returns the source functions (incl. closures and methods)
// of the given packages, sorted by position.
func moduleFunctions(prog *ssa.Program, pkgs ...*ssa.Package) []*ssa.Function {
	want := map[*ssa.Package]bool{}
	for _, p := range pkgs {
		if p != nil {
			want[p] = true
		}
	}
	var out []*ssa.Function
	seen := map[*ssa.Function]bool{}
	var add func(fn *ssa.Function)
	add = func(fn *ssa.Function) {
		if fn == nil || seen[fn] || fn.Blocks == nil {
			return
		}
		seen[fn] = true
		out = append(out, fn)
		for _, an := range fn.AnonFuncs {
			add(an)
		}
	}
	for p := range want {
		for _, m := range p.Members {
			switch x := m.(type) {
			case *ssa.Function:
				add(x)
			case *ssa.Type:
				for _, t := range []types.Type{x.Type(), types.NewPointer(x.Type())} {
					ms := prog.MethodSets.MethodSet(t)
					for i := 0; i < ms.Len(); i++ {
						if f := prog.MethodValue(ms.At(i)); f != nil && f.Pkg == p {
							add(f)
						}
					}
				}
			}
		}
	}
	sort.Slice(out, func(i, j int) bool {
		if out[i].Pos() != out[j].Pos() {
			return out[i].Pos() < out[j].Pos()
		}
		return out[i].String() < out[j].String()
	})
	return out
}

func ssaFuncKey(fn *ssa.Function) string {
	name := fn.String()
	name = strings.ReplaceAll(name, modPath+"/", "")
	name = strings.ReplaceAll(name, "*", "")
	return name
}

// appendBaseIsReslice reports whether the base of an append is, possibly through the loop that carries it, a slice
// expression with an upper bound (x[:0], x[:n]): its capacity reaches past its length, so append stores in place.
func appendBaseIsReslice(v ssa.Value) bool {
	seen := map[ssa.Value]bool{}
	var walk func(v ssa.Value) bool
	walk = func(v ssa.Value) bool {
		if v == nil || seen[v] {
			return false
		}
		seen[v] = true
		switch x := v.(type) {
		case *ssa.Slice:
			return x.High != nil
		case *ssa.Phi:
			for _, e := range x.Edges {
				if walk(e) {
					return true
				}
			}
		case *ssa.Call:
			if b, ok := x.Common().Value.(*ssa.Builtin); ok && b.Name() == "append" && len(x.Common().Args) > 0 {
				return walk(x.Common().Args[0])
			}
		case *ssa.ChangeType:
			return walk(x.X)
		}
		return false
	}
	return walk(v)
}

// isElemRef: a value of this type refers to storage of its own (so a copy of it is an alias).
func isElemRef(t types.Type) bool {
	switch t.Underlying().(type) {
	case *types.Pointer, *types.Interface, *types.Slice, *types.Map:
		return true
	}
	return false
}
