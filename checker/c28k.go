package main

import (
	"fmt"
	"go/ast"
	"go/token"
	"go/types"
	"sort"
	"strings"

	"golang.org/x/tools/go/packages"
)

// R28k: index preconditions of the module's own helpers. A helper such as internal.SetIndexedElem indexes with a
// parameter it never tests against zero ("the index k must not be negative") — derived, not listed: for every function
// of the interpreter's packages and every integer parameter, a sign dataflow inside the callee (parameter "not known
// to be non-negative" on entry; `k >= 0`-style edges establish it; copies carry it; `+=`/`-=`/`--` lose it) tells
// whether the parameter can reach an index, a slice bound or a slices.Insert/Delete position unguarded from below. At
// every call of such a helper, an argument that carries an integer from the program (strconv.Atoi, arithmetic
// evaluation, …; the sources of R28c) must be known non-negative by the same dataflow in the caller.
type signFact map[types.Object]bool // objects NOT known to be non-negative

func (f signFact) with(o types.Object, unguarded bool) signFact {
	if f[o] == unguarded {
		return f
	}
	n := make(signFact, len(f)+1)
	for k, v := range f {
		if v {
			n[k] = true
		}
	}
	if unguarded {
		n[o] = true
	} else {
		delete(n, o)
	}
	return n
}

type signAnalysis struct {
	info    *types.Info
	tainted map[types.Object]string
}

func intTyped(t types.Type) bool {
	b, ok := t.Underlying().(*types.Basic)
	return ok && b.Info()&types.IsInteger != 0
}

// taintedIntsOf: the integer locals of fd that can hold a value from the program (or from a seed), flow-insensitively.
func taintedIntsOf(info *types.Info, fd *ast.FuncDecl, seeds map[types.Object]string) map[types.Object]string {
	tainted := map[types.Object]string{}
	for o, s := range seeds {
		tainted[o] = s
	}
	mentions := func(e ast.Node) types.Object {
		var hit types.Object
		ast.Inspect(e, func(n ast.Node) bool {
			if id, ok := n.(*ast.Ident); ok {
				if o := info.ObjectOf(id); o != nil {
					if _, ok := tainted[o]; ok {
						hit = o
					}
				}
			}
			return hit == nil
		})
		return hit
	}
	for changed, rounds := true, 0; changed && rounds < 8; rounds++ {
		changed = false
		ast.Inspect(fd.Body, func(n ast.Node) bool {
			as, ok := n.(*ast.AssignStmt)
			if !ok {
				return true
			}
			for i, l := range as.Lhs {
				id, ok := l.(*ast.Ident)
				if !ok || id.Name == "_" {
					continue
				}
				o := info.ObjectOf(id)
				if o == nil || !intTyped(o.Type()) {
					continue
				}
				if _, done := tainted[o]; done {
					continue
				}
				var rhs ast.Expr
				if len(as.Rhs) == len(as.Lhs) {
					rhs = as.Rhs[i]
				} else if len(as.Rhs) == 1 && i == 0 {
					rhs = as.Rhs[0]
				}
				if rhs == nil {
					continue
				}
				if src := sourceIn(info, rhs); src != "" {
					tainted[o] = src
					changed = true
					continue
				}
				if t := mentions(rhs); t != nil && !hasRealCall(info, rhs) {
					tainted[o] = "derived from " + t.Name()
					changed = true
				}
			}
			return true
		})
	}
	return tainted
}

func sourceIn(info *types.Info, e ast.Expr) string {
	src := ""
	ast.Inspect(e, func(m ast.Node) bool {
		if c, ok := m.(*ast.CallExpr); ok {
			if s := isIntSource(info, c); s != "" {
				src = s
			}
			if isBuiltinCall(info, c, "min") || isBuiltinCall(info, c, "max") {
				return false
			}
		}
		return true
	})
	return src
}

func hasRealCall(info *types.Info, e ast.Expr) bool {
	found := false
	ast.Inspect(e, func(m ast.Node) bool {
		if c, ok := m.(*ast.CallExpr); ok {
			if tv, ok := info.Types[c.Fun]; !ok || !tv.IsType() {
				found = true
			}
		}
		return true
	})
	return found
}

func (sa *signAnalysis) run(g *FGraph, init signFact) *flowResult[signFact] {
	info := sa.info
	isT := func(o types.Object) bool { _, ok := sa.tainted[o]; return ok }
	identObj := func(e ast.Expr) types.Object {
		if id, ok := ast.Unparen(e).(*ast.Ident); ok {
			return info.ObjectOf(id)
		}
		return nil
	}
	mentionsUnguarded := func(f signFact, e ast.Expr) bool {
		hit := false
		ast.Inspect(e, func(n ast.Node) bool {
			if id, ok := n.(*ast.Ident); ok {
				if o := info.ObjectOf(id); o != nil && f[o] {
					hit = true
				}
			}
			return !hit
		})
		return hit
	}
	var assign func(f signFact, n ast.Node) signFact
	assign = func(f signFact, n ast.Node) signFact {
		switch x := n.(type) {
		case *ast.AssignStmt:
			for i, l := range x.Lhs {
				o := identObj(l)
				if o == nil || !isT(o) {
					continue
				}
				var rhs ast.Expr
				if len(x.Rhs) == len(x.Lhs) {
					rhs = x.Rhs[i]
				} else if len(x.Rhs) == 1 && i == 0 {
					rhs = x.Rhs[0]
				}
				switch x.Tok {
				case token.ASSIGN, token.DEFINE:
					switch {
					case rhs == nil:
						f = f.with(o, true)
					case sourceIn(info, rhs) != "":
						f = f.with(o, true)
					default:
						f = f.with(o, mentionsUnguarded(f, rhs))
					}
				case token.ADD_ASSIGN:
					if tv, ok := info.Types[rhs]; ok && tv.Value != nil && !strings.HasPrefix(tv.Value.ExactString(), "-") {
						continue // adding a non-negative constant keeps what is known
					}
					f = f.with(o, true)
				default:
					f = f.with(o, true)
				}
			}
		case *ast.IncDecStmt:
			if o := identObj(x.X); o != nil && isT(o) && x.Tok == token.DEC {
				f = f.with(o, true)
			}
		case *ast.RangeStmt:
			// range keys over a slice or an integer are non-negative
		}
		return f
	}
	return runForward(g, flowSpec[signFact]{
		Init: init,
		Join: func(a, b signFact) signFact {
			if len(b) == 0 {
				return a
			}
			n := make(signFact, len(a)+len(b))
			for k, v := range a {
				if v {
					n[k] = true
				}
			}
			for k, v := range b {
				if v {
					n[k] = true
				}
			}
			return n
		},
		Equal: func(a, b signFact) bool {
			if len(a) != len(b) {
				return false
			}
			for k := range a {
				if !b[k] {
					return false
				}
			}
			return true
		},
		Node: func(f signFact, n ast.Node) signFact { return assign(f, n) },
		Edge: func(f signFact, e *FEdge) signFact {
			if e.Cond == nil || e.Tag != nil || e.TypeCase {
				return f
			}
			for o := range f {
				if k := boundsKind(info, e, o); k == "lower" || k == "both" {
					f = f.with(o, false)
				}
			}
			return f
		},
	})
}

// factAt returns the fact before the graph node that holds n.
func factAt(g *FGraph, res *flowResult[signFact], n ast.Node) (signFact, bool) {
	if f, ok := res.Before(n); ok {
		return f, true
	}
	if b := blockContaining(g, n); b != nil {
		for i, nd := range b.Nodes {
			if nd.Pos() <= n.Pos() && n.End() <= nd.End() {
				return res.At(b, i)
			}
		}
	}
	return nil, false
}

func checkIndexPreconditions(p *Prog, r *Result, rule string, rels []string) {
	type fnInfo struct {
		pkg *packages.Package
		rel string
		fd  *ast.FuncDecl
	}
	fns := map[*types.Func]fnInfo{}
	var order []*types.Func
	for _, rel := range rels {
		pkg := p.Pkg(rel)
		if pkg == nil {
			continue
		}
		for _, fd := range p.AllFuncDecls(rel) {
			if fd.Body == nil || strings.HasSuffix(p.Position(fd.Pos()), "_test.go") {
				continue
			}
			if fo, ok := pkg.TypesInfo.Defs[fd.Name].(*types.Func); ok {
				fns[fo] = fnInfo{pkg, rel, fd}
				order = append(order, fo)
			}
		}
	}
	sort.Slice(order, func(i, j int) bool { return qualName(order[i]) < qualName(order[j]) })
	// 1. which integer parameters must not be negative
	needs := map[*types.Func]map[int]string{} // param index → the sink inside the callee
	for _, fo := range order {
		fi := fns[fo]
		info := fi.pkg.TypesInfo
		var params []types.Object
		for _, f := range fi.fd.Type.Params.List {
			for _, nm := range f.Names {
				params = append(params, info.Defs[nm])
			}
			if len(f.Names) == 0 {
				params = append(params, nil)
			}
		}
		var g *FGraph
		for pi, po := range params {
			if po == nil || !intTyped(po.Type()) {
				continue
			}
			if b, ok := po.Type().Underlying().(*types.Basic); ok && b.Info()&types.IsUnsigned != 0 {
				continue
			}
			tainted := taintedIntsOf(info, fi.fd, map[types.Object]string{po: "parameter"})
			sa := &signAnalysis{info, tainted}
			if g == nil {
				g = NewFGraph(info, fi.fd.Body, nil)
			}
			res := sa.run(g, signFact{po: true})
			sink := ""
			inspectNoLit(fi.fd.Body, func(n ast.Node) bool {
				if sink != "" {
					return false
				}
				var exprs []ast.Expr
				var at ast.Node
				what := ""
				switch x := n.(type) {
				case *ast.IndexExpr:
					if _, isMap := info.TypeOf(x.X).Underlying().(*types.Map); isMap {
						return true
					}
					if tv, ok := info.Types[x.X]; ok && tv.IsType() {
						return true
					}
					exprs, at, what = []ast.Expr{x.Index}, x, exprString(x)
				case *ast.SliceExpr:
					for _, b := range []ast.Expr{x.Low, x.High, x.Max} {
						if b != nil {
							exprs = append(exprs, b)
						}
					}
					at, what = x, exprString(x)
				default:
					return true
				}
				f, ok := factAt(g, res, at)
				if !ok {
					return true
				}
				for _, e := range exprs {
					ast.Inspect(e, func(m ast.Node) bool {
						if id, ok := m.(*ast.Ident); ok {
							if o := info.ObjectOf(id); o != nil && f[o] {
								sink = what
							}
						}
						return true
					})
				}
				return true
			})
			if sink != "" {
				if needs[fo] == nil {
					needs[fo] = map[int]string{}
				}
				needs[fo][pi] = sink
			}
		}
	}
	// 2. call sites
	nHelpers, nSites := 0, 0
	for _, fo := range order {
		if len(needs[fo]) > 0 {
			nHelpers++
		}
	}
	for _, fo := range order {
		fi := fns[fo]
		info := fi.pkg.TypesInfo
		tainted := taintedIntsOf(info, fi.fd, nil)
		if len(tainted) == 0 {
			continue
		}
		var g *FGraph
		var res *flowResult[signFact]
		seen := map[string]int{}
		inspectNoLit(fi.fd.Body, func(n ast.Node) bool {
			c, ok := n.(*ast.CallExpr)
			if !ok {
				return true
			}
			callee := calleeOf(info, c)
			if callee == nil || len(needs[callee.Origin()]) == 0 {
				return true
			}
			for pi, sink := range needs[callee.Origin()] {
				if pi >= len(c.Args) {
					continue
				}
				arg := c.Args[pi]
				var carried types.Object
				ast.Inspect(arg, func(m ast.Node) bool {
					if id, ok := m.(*ast.Ident); ok {
						if o := info.ObjectOf(id); o != nil {
							if _, isT := tainted[o]; isT {
								carried = o
							}
						}
					}
					return true
				})
				if carried == nil {
					continue
				}
				nSites++
				if g == nil {
					g = NewFGraph(info, fi.fd.Body, nil)
					res = (&signAnalysis{info, tainted}).run(g, signFact{})
				}
				key := fmt.Sprintf("%s#%s passed to %s as a non-negative index", relKey(fi.rel, fi.fd), exprString(arg), callee.Name())
				seen[key]++
				if seen[key] > 1 {
					key += fmt.Sprintf("#%d", seen[key])
				}
				f, found := factAt(g, res, c)
				if !found {
					r.Undecided(rule, key, c.Pos(), "the call was not found in the function's flow graph")
					continue
				}
				r.Check(!f[carried], rule, key, c.Pos(), fmt.Sprintf("%s (%s) is known to be non-negative on every path to the call", carried.Name(), tainted[carried]),
					fmt.Sprintf("%s carries an integer from the program (%s) and reaches %s, which uses that parameter in %s without testing it against zero, on a path with no test that rules out negative values: that value panics the interpreter", carried.Name(), tainted[carried], callee.Name(), sink))
			}
			return true
		})
	}
	r.Notef("%s: %d helpers index with a parameter they do not test against zero; %d call sites pass a value from the program", rule, nHelpers, nSites)
}
