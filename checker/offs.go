package main

import (
	"fmt"
	"go/ast"
	"go/token"
	"go/types"

	"golang.org/x/tools/go/packages"
)

// checkOffsetBase decides, in fill(): positions are `p.offs + p.bsp`, and fill() slides the unread bytes to the start of
// the buffer and sets the cursor to 0, so the offset base must grow by exactly what was consumed — the cursor. Every
// `p.offs += E` in fill has E equal to the cursor (conversions aside), is not on a cycle (the read-retry loop), comes
// before the cursor is reset, and no path executes two of them. Adding the buffer's length instead counts bytes that
// were read ahead but not consumed, and every later offset is too large exactly when a read ended inside a lookahead.
func checkOffsetBase(p *Prog, r *Result, pkg *packages.Package, rule string) {
	info := pkg.TypesInfo
	fd := p.FuncDecl("syntax", "Parser.fill")
	if fd == nil {
		r.Fatalf("anchor Parser.fill not found")
		return
	}
	parserT := lookupType(pkg, "Parser")
	var offsF, bspF *types.Var
	st := parserT.Underlying().(*types.Struct)
	for i := 0; i < st.NumFields(); i++ {
		switch st.Field(i).Name() {
		case "offs":
			offsF = st.Field(i)
		case "bsp":
			bspF = st.Field(i)
		}
	}
	if offsF == nil || bspF == nil {
		r.Fatalf("anchors Parser.offs / Parser.bsp not found")
		return
	}
	g := NewFGraph(info, fd.Body, nil)
	type upd struct {
		as  *ast.AssignStmt
		blk *FBlock
		idx int
	}
	var upds []upd
	for _, b := range g.Blocks {
		for i, nd := range b.Nodes {
			as, ok := nd.(*ast.AssignStmt)
			if !ok || len(as.Lhs) != 1 || selectorField(info, as.Lhs[0]) != offsF {
				continue
			}
			upds = append(upds, upd{as, b, i})
		}
	}
	if len(upds) == 0 {
		r.Bad(rule, "syntax.(Parser).fill#offs update", fd.Pos(), "fill() never advances the offset base although it resets the cursor: every position after the first refill is too small")
		return
	}
	isBspStore := func(n ast.Node) bool {
		found := false
		inspectNoLit(n, func(m ast.Node) bool {
			if as, ok := m.(*ast.AssignStmt); ok {
				for _, l := range as.Lhs {
					if selectorField(info, l) == bspF {
						found = true
					}
				}
			}
			return true
		})
		return found
	}
	for i, u := range upds {
		key := "syntax.(Parser).fill#offs += bsp"
		if len(upds) > 1 {
			key = fmt.Sprintf("%s (%d)", key, i+1)
		}
		// the addend is the cursor
		addend := ""
		okAdd := false
		if u.as.Tok == token.ADD_ASSIGN && len(u.as.Rhs) == 1 {
			addend = exprString(u.as.Rhs[0])
			okAdd = selectorField(info, stripConv(info, u.as.Rhs[0])) == bspF
		}
		if !okAdd {
			r.Bad(rule, key, u.as.Pos(), fmt.Sprintf("the offset base is advanced by %s, not by the cursor: bytes that were read ahead but not consumed are counted (or consumed ones are not), so every later byte offset is off exactly when a read ended inside a lookahead", addend))
			continue
		}
		onCycle := false
		for _, e := range u.blk.Succs {
			if g.Reachable(e.To, nil)[u.blk] {
				onCycle = true
			}
		}
		if onCycle {
			r.Bad(rule, key, u.as.Pos(), "the offset base is advanced inside the read-retry loop: a reader that returns (0, nil) makes every later position drift past the input")
			continue
		}
		// no second update on any path from this one, and the cursor was not reset before it
		second := false
		reach := g.Reachable(u.blk, nil)
		for _, v := range upds {
			if v.as != u.as && (reach[v.blk] && (v.blk != u.blk || v.idx > u.idx)) {
				second = true
			}
		}
		early := false
		for _, b := range g.Blocks {
			for j, nd := range b.Nodes {
				if isBspStore(nd) && (g.Reachable(b, nil)[u.blk] && (b != u.blk || j < u.idx)) {
					early = true
				}
			}
		}
		switch {
		case second:
			r.Bad(rule, key, u.as.Pos(), "a path through fill() advances the offset base twice")
		case early:
			r.Bad(rule, key, u.as.Pos(), "the cursor is reset before the offset base is advanced by it: the base never grows")
		default:
			r.OK(rule, key, u.as.Pos(), "advanced by the cursor, once per call, before the cursor is reset")
		}
	}
}

// checkRetryCounterReset (0 instances on the pinned tree; armed by a control): a field that fill() increments when a
// read returns nothing is a count of *consecutive* empty reads only if a read that returns bytes sets it back to zero.
// Without the reset the count runs over the whole session, and the give-up threshold is reached by a long-lived
// streaming or interactive reader that merely returns (0, nil) now and then.
func checkRetryCounterReset(p *Prog, r *Result, pkg *packages.Package, rule string) int {
	info := pkg.TypesInfo
	fd := p.FuncDecl("syntax", "Parser.fill")
	if fd == nil {
		r.Fatalf("anchor Parser.fill not found")
		return 0
	}
	g := NewFGraph(info, fd.Body, nil)
	counted := map[*types.Var]ast.Node{}
	inspectNoLit(fd.Body, func(n ast.Node) bool {
		switch x := n.(type) {
		case *ast.IncDecStmt:
			if fv := selectorField(info, x.X); fv != nil && x.Tok == token.INC {
				counted[fv] = x
			}
		case *ast.AssignStmt:
			if x.Tok == token.ADD_ASSIGN && len(x.Lhs) == 1 {
				if fv := selectorField(info, x.Lhs[0]); fv != nil {
					if tv, ok := info.Types[x.Rhs[0]]; ok && tv.Value != nil && tv.Value.ExactString() == "1" {
						counted[fv] = x
					}
				}
			}
		}
		return true
	})
	n := 0
	for fv, at := range counted {
		// compared with a constant somewhere in fill: a threshold
		threshold := false
		ast.Inspect(fd.Body, func(m ast.Node) bool {
			if be, ok := m.(*ast.BinaryExpr); ok {
				for _, side := range [][2]ast.Expr{{be.X, be.Y}, {be.Y, be.X}} {
					if selectorField(info, side[0]) == fv {
						if tv, ok := info.Types[side[1]]; ok && tv.Value != nil {
							threshold = true
						}
					}
				}
			}
			return true
		})
		if !threshold {
			continue
		}
		n++
		key := fmt.Sprintf("syntax.(Parser).fill#%s counts consecutive empty reads", fv.Name())
		reset := false
		for _, b := range g.Blocks {
			for _, nd := range b.Nodes {
				as, ok := nd.(*ast.AssignStmt)
				if !ok || as.Tok != token.ASSIGN || len(as.Lhs) != len(as.Rhs) {
					continue
				}
				for i, l := range as.Lhs {
					if selectorField(info, l) != fv {
						continue
					}
					if tv, ok := info.Types[as.Rhs[i]]; !ok || tv.Value == nil || tv.Value.ExactString() != "0" {
						continue
					}
					// on the path where bytes arrived: under the failing branch of n == 0 (or the passing one of n > 0 / n != 0)
					if underEdges(g, b, func(e *FEdge) bool {
						if e.Cond == nil || e.Tag != nil {
							return false
						}
						be, ok := ast.Unparen(e.Cond).(*ast.BinaryExpr)
						if !ok {
							return false
						}
						id, ok := ast.Unparen(be.X).(*ast.Ident)
						if !ok || id.Name != "n" {
							return false
						}
						tv, ok := info.Types[be.Y]
						if !ok || tv.Value == nil || tv.Value.ExactString() != "0" {
							return false
						}
						return (be.Op == token.EQL && !e.Pol) || ((be.Op == token.NEQ || be.Op == token.GTR) && e.Pol)
					}) {
						reset = true
					}
				}
			}
		}
		r.Check(reset, rule, key, at.Pos(), "set back to zero when a read returns bytes",
			fmt.Sprintf("fill() increments %s when a read returns nothing and compares it with a limit, but a read that returns bytes does not set it back to zero: the count runs over the whole input, and a reader that returns (0, nil) now and then fails with the give-up error although it keeps making progress", fv.Name()))
	}
	return n
}

// checkEOFCursor: positions are offs + bsp - w, and at the end of the input w is 1 with nothing consumed, so rune()
// moves the cursor one past the buffer when it answers the end-of-input sentinel. Whether the buffer is empty at that
// point depends on how the reader delivered its last bytes (alone, then io.EOF — or together with io.EOF, in which case
// fill() has nothing more to do and leaves them in place). The store must therefore not depend on the buffer being
// empty: in rune(), every store of the sentinel into p.r is preceded in its block by an unconditional
// `p.bsp = len(p.bs) + 1`.
func checkEOFCursor(p *Prog, r *Result, pkg *packages.Package, rule string) {
	info := pkg.TypesInfo
	fd := p.FuncDecl("syntax", "Parser.rune")
	eofC, _ := pkg.Types.Scope().Lookup("runeEOF").(*types.Const)
	if fd == nil || eofC == nil {
		r.Fatalf("anchors Parser.rune / runeEOF not found")
		return
	}
	g := NewFGraph(info, fd.Body, nil)
	n := 0
	for _, b := range g.Blocks {
		for i, nd := range b.Nodes {
			as, ok := nd.(*ast.AssignStmt)
			if !ok || len(as.Lhs) != len(as.Rhs) {
				continue
			}
			isEOFStore := false
			for j, l := range as.Lhs {
				if fv := selectorField(info, l); fv != nil && fv.Name() == "r" {
					if tv, ok := info.Types[as.Rhs[j]]; ok && tv.Value != nil && types.Identical(tv.Type, eofC.Type()) && tv.Value.ExactString() == eofC.Val().ExactString() {
						isEOFStore = true
					}
				}
			}
			if !isEOFStore {
				continue
			}
			n++
			key := "syntax.(Parser).rune#the end-of-input cursor does not depend on the buffer being empty"
			if n > 1 {
				key = fmt.Sprintf("%s (%d)", key, n)
			}
			ok2 := false
			for _, prev := range b.Nodes[:i] {
				pa, isAs := prev.(*ast.AssignStmt)
				if !isAs || len(pa.Lhs) != 1 || len(pa.Rhs) != 1 {
					continue
				}
				if fv := selectorField(info, pa.Lhs[0]); fv == nil || fv.Name() != "bsp" {
					continue
				}
				be, isBin := stripConv(info, pa.Rhs[0]).(*ast.BinaryExpr)
				if !isBin || be.Op != token.ADD {
					continue
				}
				for _, pair := range [][2]ast.Expr{{be.X, be.Y}, {be.Y, be.X}} {
					c, isCall := stripConv(info, pair[0]).(*ast.CallExpr)
					if !isCall || !isBuiltinCall(info, c, "len") || len(c.Args) != 1 {
						continue
					}
					if bf := selectorField(info, c.Args[0]); bf == nil || bf.Name() != "bs" {
						continue
					}
					if tv, has := info.Types[pair[1]]; has && tv.Value != nil && tv.Value.ExactString() == "1" {
						ok2 = true
					}
				}
			}
			r.Check(ok2, rule, key, as.Pos(), "the block that stores the sentinel first stores p.bsp = len(p.bs) + 1, unconditionally",
				"rune() answers the end-of-input sentinel without moving the cursor one past the buffer in the same block (unconditionally): when the reader delivers its last bytes together with io.EOF the buffer is not empty at that point, and the end offsets of the last token and of the file come out one byte short")
		}
	}
	if n == 0 {
		r.Bad(rule, "syntax.(Parser).rune#stores the sentinel", fd.Pos(), "rune() never stores the end-of-input sentinel: the rule no longer sees the construct it is about")
	}
}
