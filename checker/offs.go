package main

import (
	"fmt"
	"go/ast"
	"go/token"
	"go/types"
	"strings"

	"golang.org/x/tools/go/packages"
)

// checkOffsetBase decides, in fill(): positions are `p.offs + p.bsp`, and fill() slides the unread bytes to the start of
// the buffer and sets the cursor to 0, so the offset base must grow by exactly what was consumed — the cursor. Every
// `p.offs += E` in fill has E equal to the cursor (conversions aside), is not on a cycle (the read-retry loop), comes
// before the cursor is reset, and no path executes two of them. Adding the buffer's length instead counts bytes that
// were read ahead but not consumed, and every later offset is too large exactly when a read ended inside a lookahead.
func checkOffsetBase(p *Prog, r *Result, pkg *packages.Package, rule string) {
	info := pkg.TypesInfo
	fd := p.FuncDecl("syntax", "Parser.fill")
	if fd == nil {
		r.Fatalf("anchor Parser.fill not found")
		return
	}
	parserT := lookupType(pkg, "Parser")
	var offsF, bspF *types.Var
	st := parserT.Underlying().(*types.Struct)
	for i := 0; i < st.NumFields(); i++ {
		switch st.Field(i).Name() {
		case "offs":
			offsF = st.Field(i)
		case "bsp":
			bspF = st.Field(i)
		}
	}
	if offsF == nil || bspF == nil {
		r.Fatalf("anchors Parser.offs / Parser.bsp not found")
		return
	}
	g := NewFGraph(info, fd.Body, nil)
	type upd struct {
		as  *ast.AssignStmt
		blk *FBlock
		idx int
	}
	var upds []upd
	for _, b := range g.Blocks {
		for i, nd := range b.Nodes {
			as, ok := nd.(*ast.AssignStmt)
			if !ok || len(as.Lhs) != 1 || selectorField(info, as.Lhs[0]) != offsF {
				continue
			}
			upds = append(upds, upd{as, b, i})
		}
	}
	if len(upds) == 0 {
		r.Bad(rule, "syntax.(Parser).fill#offs update", fd.Pos(), "fill() never advances the offset base although it resets the cursor: every position after the first refill is too small")
		return
	}
	isBspStore := func(n ast.Node) bool {
		found := false
		inspectNoLit(n, func(m ast.Node) bool {
			if as, ok := m.(*ast.AssignStmt); ok {
				for _, l := range as.Lhs {
					if selectorField(info, l) == bspF {
						found = true
					}
				}
			}
			return true
		})
		return found
	}
	for i, u := range upds {
		key := "syntax.(Parser).fill#offs += bsp"
		if len(upds) > 1 {
			key = fmt.Sprintf("%s (%d)", key, i+1)
		}
		// the addend is the cursor
		addend := ""
		okAdd := false
		if u.as.Tok == token.ADD_ASSIGN && len(u.as.Rhs) == 1 {
			addend = exprString(u.as.Rhs[0])
			okAdd = selectorField(info, stripConv(info, u.as.Rhs[0])) == bspF
		}
		if !okAdd {
			r.Bad(rule, key, u.as.Pos(), fmt.Sprintf("the offset base is advanced by %s, not by the cursor: bytes that were read ahead but not consumed are counted (or consumed ones are not), so every later byte offset is off exactly when a read ended inside a lookahead", addend))
			continue
		}
		onCycle := false
		for _, e := range u.blk.Succs {
			if g.Reachable(e.To, nil)[u.blk] {
				onCycle = true
			}
		}
		if onCycle {
			r.Bad(rule, key, u.as.Pos(), "the offset base is advanced inside the read-retry loop: a reader that returns (0, nil) makes every later position drift past the input")
			continue
		}
		// no second update on any path from this one, and the cursor was not reset before it
		second := false
		reach := g.Reachable(u.blk, nil)
		for _, v := range upds {
			if v.as != u.as && (reach[v.blk] && (v.blk != u.blk || v.idx > u.idx)) {
				second = true
			}
		}
		early := false
		for _, b := range g.Blocks {
			for j, nd := range b.Nodes {
				if isBspStore(nd) && (g.Reachable(b, nil)[u.blk] && (b != u.blk || j < u.idx)) {
					early = true
				}
			}
		}
		switch {
		case second:
			r.Bad(rule, key, u.as.Pos(), "a path through fill() advances the offset base twice")
		case early:
			r.Bad(rule, key, u.as.Pos(), "the cursor is reset before the offset base is advanced by it: the base never grows")
		default:
			r.OK(rule, key, u.as.Pos(), "advanced by the cursor, once per call, before the cursor is reset")
		}
	}
}

// checkRetryCounterReset (0 instances on the pinned tree; armed by a control): a field that fill() increments when a
// read returns nothing is a count of *consecutive* empty reads only if a read that returns bytes sets it back to zero.
// Without the reset the count runs over the whole session, and the give-up threshold is reached by a long-lived
// streaming or interactive reader that merely returns (0, nil) now and then.
func checkRetryCounterReset(p *Prog, r *Result, pkg *packages.Package, rule string) int {
	info := pkg.TypesInfo
	fd := p.FuncDecl("syntax", "Parser.fill")
	if fd == nil {
		r.Fatalf("anchor Parser.fill not found")
		return 0
	}
	g := NewFGraph(info, fd.Body, nil)
	counted := map[*types.Var]ast.Node{}
	inspectNoLit(fd.Body, func(n ast.Node) bool {
		switch x := n.(type) {
		case *ast.IncDecStmt:
			if fv := selectorField(info, x.X); fv != nil && x.Tok == token.INC {
				counted[fv] = x
			}
		case *ast.AssignStmt:
			if x.Tok == token.ADD_ASSIGN && len(x.Lhs) == 1 {
				if fv := selectorField(info, x.Lhs[0]); fv != nil {
					if tv, ok := info.Types[x.Rhs[0]]; ok && tv.Value != nil && tv.Value.ExactString() == "1" {
						counted[fv] = x
					}
				}
			}
		}
		return true
	})
	n := 0
	for fv, at := range counted {
		// compared with a constant somewhere in fill: a threshold
		threshold := false
		ast.Inspect(fd.Body, func(m ast.Node) bool {
			if be, ok := m.(*ast.BinaryExpr); ok {
				for _, side := range [][2]ast.Expr{{be.X, be.Y}, {be.Y, be.X}} {
					if selectorField(info, side[0]) == fv {
						if tv, ok := info.Types[side[1]]; ok && tv.Value != nil {
							threshold = true
						}
					}
				}
			}
			return true
		})
		if !threshold {
			continue
		}
		n++
		key := fmt.Sprintf("syntax.(Parser).fill#%s counts consecutive empty reads", fv.Name())
		reset := false
		for _, b := range g.Blocks {
			for _, nd := range b.Nodes {
				as, ok := nd.(*ast.AssignStmt)
				if !ok || as.Tok != token.ASSIGN || len(as.Lhs) != len(as.Rhs) {
					continue
				}
				for i, l := range as.Lhs {
					if selectorField(info, l) != fv {
						continue
					}
					if tv, ok := info.Types[as.Rhs[i]]; !ok || tv.Value == nil || tv.Value.ExactString() != "0" {
						continue
					}
					// on the path where bytes arrived: under the failing branch of n == 0 (or the passing one of n > 0 / n != 0)
					if underEdges(g, b, func(e *FEdge) bool {
						if e.Cond == nil || e.Tag != nil {
							return false
						}
						be, ok := ast.Unparen(e.Cond).(*ast.BinaryExpr)
						if !ok {
							return false
						}
						id, ok := ast.Unparen(be.X).(*ast.Ident)
						if !ok || id.Name != "n" {
							return false
						}
						tv, ok := info.Types[be.Y]
						if !ok || tv.Value == nil || tv.Value.ExactString() != "0" {
							return false
						}
						return (be.Op == token.EQL && !e.Pol) || ((be.Op == token.NEQ || be.Op == token.GTR) && e.Pol)
					}) {
						reset = true
					}
				}
			}
		}
		r.Check(reset, rule, key, at.Pos(), "set back to zero when a read returns bytes",
			fmt.Sprintf("fill() increments %s when a read returns nothing and compares it with a limit, but a read that returns bytes does not set it back to zero: the count runs over the whole input, and a reader that returns (0, nil) now and then fails with the give-up error although it keeps making progress", fv.Name()))
	}
	return n
}

// checkEOFCursor: positions are offs + bsp - w, and at the end of the input w is 1 with nothing consumed, so rune()
// moves the cursor one past the buffer when it answers the end-of-input sentinel. Whether the buffer is empty at that
// point depends on how the reader delivered its last bytes (alone, then io.EOF — or together with io.EOF, in which case
// fill() has nothing more to do and leaves them in place). The store must therefore not depend on the buffer being
// empty: in rune(), every store of the sentinel into p.r is preceded in its block by an unconditional
// `p.bsp = len(p.bs) + 1`.
func checkEOFCursor(p *Prog, r *Result, pkg *packages.Package, rule string) {
	info := pkg.TypesInfo
	fd := p.FuncDecl("syntax", "Parser.rune")
	eofC, _ := pkg.Types.Scope().Lookup("runeEOF").(*types.Const)
	if fd == nil || eofC == nil {
		r.Fatalf("anchors Parser.rune / runeEOF not found")
		return
	}
	g := NewFGraph(info, fd.Body, nil)
	n := 0
	for _, b := range g.Blocks {
		for i, nd := range b.Nodes {
			as, ok := nd.(*ast.AssignStmt)
			if !ok || len(as.Lhs) != len(as.Rhs) {
				continue
			}
			isEOFStore := false
			for j, l := range as.Lhs {
				if fv := selectorField(info, l); fv != nil && fv.Name() == "r" {
					if tv, ok := info.Types[as.Rhs[j]]; ok && tv.Value != nil && types.Identical(tv.Type, eofC.Type()) && tv.Value.ExactString() == eofC.Val().ExactString() {
						isEOFStore = true
					}
				}
			}
			if !isEOFStore {
				continue
			}
			n++
			key := "syntax.(Parser).rune#the end-of-input cursor does not depend on the buffer being empty"
			if n > 1 {
				key = fmt.Sprintf("%s (%d)", key, n)
			}
			ok2 := false
			for _, prev := range b.Nodes[:i] {
				pa, isAs := prev.(*ast.AssignStmt)
				if !isAs || len(pa.Lhs) != 1 || len(pa.Rhs) != 1 {
					continue
				}
				if fv := selectorField(info, pa.Lhs[0]); fv == nil || fv.Name() != "bsp" {
					continue
				}
				be, isBin := stripConv(info, pa.Rhs[0]).(*ast.BinaryExpr)
				if !isBin || be.Op != token.ADD {
					continue
				}
				for _, pair := range [][2]ast.Expr{{be.X, be.Y}, {be.Y, be.X}} {
					c, isCall := stripConv(info, pair[0]).(*ast.CallExpr)
					if !isCall || !isBuiltinCall(info, c, "len") || len(c.Args) != 1 {
						continue
					}
					if bf := selectorField(info, c.Args[0]); bf == nil || bf.Name() != "bs" {
						continue
					}
					if tv, has := info.Types[pair[1]]; has && tv.Value != nil && tv.Value.ExactString() == "1" {
						ok2 = true
					}
				}
			}
			r.Check(ok2, rule, key, as.Pos(), "the block that stores the sentinel first stores p.bsp = len(p.bs) + 1, unconditionally",
				"rune() answers the end-of-input sentinel without moving the cursor one past the buffer in the same block (unconditionally): when the reader delivers its last bytes together with io.EOF the buffer is not empty at that point, and the end offsets of the last token and of the file come out one byte short")
		}
	}
	if n == 0 {
		r.Bad(rule, "syntax.(Parser).rune#stores the sentinel", fd.Pos(), "rune() never stores the end-of-input sentinel: the rule no longer sees the construct it is about")
	}
}

// R07g: a multi-byte rune cut by the end of a read is completed by reading on. rune() decides "more bytes are needed"
// on the decoding path; when that decision is a comparison of the number of unread bytes with a length (and not
// utf8.FullRune, which knows every encoding), the length must be able to reach utf8.UTFMax — a table that stops at
// three-byte sequences reports a four-byte rune cut after its first, second or third byte as invalid UTF-8, but only
// when a read happens to end there.
func checkPartialRuneCompleted(p *Prog, r *Result, pkg *packages.Package, rule string) int {
	info := pkg.TypesInfo
	fd := p.FuncDecl("syntax", "Parser.rune")
	fill := lookupFunc(pkg, "Parser.fill")
	if fd == nil || fill == nil {
		r.Undecided(rule, "syntax.(Parser).rune", token.NoPos, "anchors not found")
		return 0
	}
	computeConstReturnMax(p, info)
	g := NewFGraph(info, fd.Body, nil)
	n := 0
	for _, cs := range findCalls(g, func(c *ast.CallExpr) bool { return calleeOf(info, c) == fill }) {
		// only the call on the decoding path: under a test of utf8.RuneError
		onDecode := underEdges(g, cs.blk, func(e *FEdge) bool {
			be, ok := ast.Unparen(e.Cond).(*ast.BinaryExpr)
			if !ok || be.Op != token.EQL || !e.Pol {
				return false
			}
			se, ok := ast.Unparen(be.Y).(*ast.SelectorExpr)
			return ok && se.Sel.Name == "RuneError"
		})
		if !onDecode {
			continue
		}
		n++
		key := funcKey("syntax", fd) + "#a rune cut by the end of a read is completed, whatever its length"
		var bound int64 = -1
		full := false
		// the conditions of the if statements around the call, one conjunct at a time
		var stack []ast.Node
		ast.Inspect(fd.Body, func(m ast.Node) bool {
			if m == nil {
				stack = stack[:len(stack)-1]
				return true
			}
			stack = append(stack, m)
			if m != ast.Node(cs.call) {
				return true
			}
			for i := len(stack) - 1; i >= 0; i-- {
				is, ok := stack[i].(*ast.IfStmt)
				if !ok {
					continue
				}
				for _, cj := range conjuncts(is.Cond) {
					cj = ast.Unparen(cj)
					pol := true
					if ue, ok := cj.(*ast.UnaryExpr); ok && ue.Op == token.NOT {
						cj, pol = ast.Unparen(ue.X), false
					}
					if c, ok := cj.(*ast.CallExpr); ok && !pol {
						if fn := calleeOf(info, c); fn != nil && fn.Pkg() != nil && fn.Pkg().Path() == "unicode/utf8" && fn.Name() == "FullRune" {
							full = true
						}
					}
					if _, ok := cj.(*ast.BinaryExpr); ok && pol {
						if k, ok := unreadBound(info, &FEdge{Cond: cj, Pol: true}); ok && k > bound {
							bound = k
						}
					}
				}
			}
			return true
		})
		switch {
		case full:
			r.OK(rule, key, cs.call.Pos(), "the refill is decided by utf8.FullRune on the unread bytes")
		case bound >= 0 && bound < 4:
			r.Bad(rule, key, cs.call.Pos(), fmt.Sprintf("the refill on the decoding path is decided by comparing the number of unread bytes with a length that is at most %d: a four-byte encoding (any rune outside the BMP) cut by the end of a read is not completed and is reported as invalid UTF-8 — for the same input that parses when the bytes arrive together", bound))
		default:
			r.OK(rule, key, cs.call.Pos(), "the refill on the decoding path is not decided by a length below utf8.UTFMax")
		}
	}
	if n == 0 {
		r.Undecided(rule, funcKey("syntax", fd)+"#refill on the decoding path", fd.Pos(), "rune() no longer calls fill() under a test of utf8.RuneError: the rule does not see how a cut rune is completed")
	}
	return n
}

// R07h: the literal being read lives in its own buffer. fill() slides the read buffer and reads over it, so a literal
// that is a slice of p.bs or p.readBuf is overwritten by the next refill that brings bytes — and the appends that follow
// write into unread input. Every store to Parser.litBs is nil, a slice of litBuf or of litBs itself, or an append onto
// one of those.
func checkLiteralOwnsItsBytes(p *Prog, r *Result, pkg *packages.Package, rule string) int {
	info := pkg.TypesInfo
	own := func(e ast.Expr) bool {
		for {
			e = ast.Unparen(e)
			switch x := e.(type) {
			case *ast.SliceExpr:
				e = x.X
				continue
			case *ast.SelectorExpr:
				fv := selectorField(info, x)
				return fv != nil && (fv.Name() == "litBuf" || fv.Name() == "litBs")
			}
			return false
		}
	}
	n := 0
	for _, fd := range p.AllFuncDecls("syntax") {
		if fd.Body == nil || strings.HasSuffix(p.Position(fd.Pos()), "_test.go") {
			continue
		}
		k := 0
		ast.Inspect(fd.Body, func(m ast.Node) bool {
			as, ok := m.(*ast.AssignStmt)
			if !ok || len(as.Lhs) != len(as.Rhs) {
				return true
			}
			for i, l := range as.Lhs {
				fv := selectorField(info, l)
				if fv == nil || fv.Name() != "litBs" || typeName(derefType(info.TypeOf(ast.Unparen(l).(*ast.SelectorExpr).X))) != "Parser" {
					continue
				}
				k++
				n++
				key := fmt.Sprintf("%s#store %d to litBs is the literal's own storage", funcKey("syntax", fd), k)
				rhs := ast.Unparen(as.Rhs[i])
				ok2, how := false, ""
				switch {
				case isNilIdent(info, rhs):
					ok2, how = true, "nil"
				case own(rhs):
					ok2, how = true, "a slice of the literal buffer"
				default:
					if c, isCall := rhs.(*ast.CallExpr); isCall && isBuiltinCall(info, c, "append") && len(c.Args) > 0 && own(c.Args[0]) {
						ok2, how = true, "an append onto the literal buffer (the bytes are copied)"
					}
				}
				r.Check(ok2, rule, key, as.Pos(), how,
					fmt.Sprintf("the literal is made to share storage with %s: fill() slides the read buffer and reads new bytes over it, so when a refill happens before the literal ends its first bytes change under it, and appending to it overwrites input that was not read yet — the word differs depending on where the reader's chunks end", exprString(rhs)))
			}
			return true
		})
	}
	return n
}
