package main

import (
	"fmt"
	"go/ast"
	"go/types"
	"strings"
)

// R01f: in arithmetic the printer writes an operator and then the operand that follows it; where spaces are left out
// (${a:b - -1}, array indices under Minify, …) an operator ending in a sign and an operand starting with the same sign
// fuse into another operator ("b--1", "--a"). So in the function that prints arithmetic expressions, on every path
// from the write of an operator's text to the recursive call that prints the next operand, either a space is written
// or a predicate is consulted whose arguments include that very operand — the place where "would these two glue?" is
// decided. The rule decides that the question is asked, not that the answer is right.
func checkArithmOperatorsKeptApart(p *Prog, r *Result, rule string) {
	pkg := p.Pkg("syntax")
	info := pkg.TypesInfo
	fd := p.FuncDecl("syntax", "Printer.arithmExprRecurse")
	spaceFn := lookupFunc(pkg, "Printer.space")
	if fd == nil || spaceFn == nil {
		r.Fatalf("anchors Printer.arithmExprRecurse / Printer.space not found")
		return
	}
	self, _ := info.Defs[fd.Name].(*types.Func)
	g := NewFGraph(info, fd.Body, nil)
	isOpWrite := func(n ast.Node) *ast.CallExpr {
		var out *ast.CallExpr
		inspectNoLit(n, func(m ast.Node) bool {
			c, ok := m.(*ast.CallExpr)
			if !ok || len(c.Args) != 1 || out != nil {
				return true
			}
			se, ok := ast.Unparen(c.Fun).(*ast.SelectorExpr)
			if !ok || !strings.HasPrefix(se.Sel.Name, "Write") {
				return true
			}
			// the argument is <expr>.Op.String()
			ac, ok := ast.Unparen(c.Args[0]).(*ast.CallExpr)
			if !ok {
				return true
			}
			as, ok := ast.Unparen(ac.Fun).(*ast.SelectorExpr)
			if !ok || as.Sel.Name != "String" {
				return true
			}
			if fv := selectorField(info, as.X); fv != nil && fv.Name() == "Op" {
				out = c
			}
			return true
		})
		return out
	}
	recursive := func(n ast.Node) *ast.CallExpr {
		var out *ast.CallExpr
		inspectNoLit(n, func(m ast.Node) bool {
			if c, ok := m.(*ast.CallExpr); ok && out == nil {
				if callee := calleeOf(info, c); callee != nil && callee.Origin() == self {
					out = c
				}
			}
			return true
		})
		return out
	}
	n := 0
	for _, b := range g.Blocks {
		for i, nd := range b.Nodes {
			w := isOpWrite(nd)
			if w == nil {
				continue
			}
			// which operand comes next on each path, and was the question asked before it?
			type state struct {
				blk *FBlock
				idx int
			}
			bad := ""
			found := false
			visited := map[*FBlock]bool{}
			var walk func(blk *FBlock, from int, asked map[string]bool)
			walk = func(blk *FBlock, from int, asked map[string]bool) {
				for _, x := range blk.Nodes[from:] {
					if rc := recursive(x); rc != nil {
						found = true
						if len(rc.Args) > 0 && !asked["*"] && !asked[exprString(rc.Args[0])] {
							bad = exprString(rc.Args[0])
						}
						return
					}
					// a space written unconditionally on this path
					spaced := false
					inspectNoLit(x, func(m ast.Node) bool {
						if c, ok := m.(*ast.CallExpr); ok {
							if callee := calleeOf(info, c); callee != nil && callee.Origin() == spaceFn {
								spaced = true
							}
						}
						return true
					})
					if spaced {
						asked = map[string]bool{"*": true}
						continue
					}
					// a condition that consults a predicate over an operand
					if e, isExpr := x.(ast.Expr); isExpr {
						ast.Inspect(e, func(m ast.Node) bool {
							if c, ok := m.(*ast.CallExpr); ok {
								for _, a := range c.Args {
									if _, isSel := ast.Unparen(a).(*ast.SelectorExpr); isSel {
										na := map[string]bool{}
										for k := range asked {
											na[k] = true
										}
										na[exprString(a)] = true
										asked = na
									}
								}
							}
							return true
						})
					}
				}
				for _, e := range blk.Succs {
					if !visited[e.To] || true {
						if visited[e.To] {
							continue
						}
						visited[e.To] = true
						walk(e.To, 0, asked)
					}
				}
			}
			walk(b, i+1, map[string]bool{})
			if !found {
				continue // a postfix operator: nothing is printed after it
			}
			n++
			key := fmt.Sprintf("syntax.(Printer).arithmExprRecurse#operator #%d is kept apart from the operand after it", n)
			r.Check(bad == "", rule, key, w.Pos(), "a space is written, or a predicate over the following operand is consulted, on every path to the operand",
				fmt.Sprintf("an operator's text is written and the operand %s is printed right after it on a path where no space is written and nothing asks whether the two would fuse: \"b - -1\" printed without spaces is \"b--1\", and \"- -a\" is the pre-decrement \"--a\"", bad))
		}
	}
	if n == 0 {
		r.Bad(rule, "syntax.(Printer).arithmExprRecurse#writes operators", fd.Pos(), "no write of an operator followed by an operand found: the rule no longer sees the construct it is about")
	}
}
