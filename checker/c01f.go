package main

import (
	"go/token"
	"fmt"
	"go/ast"
	"go/types"
	"sort"
	"strings"
)

// R01f: in arithmetic the printer writes an operator and then the operand that follows it; where spaces are left out
// (${a:b - -1}, array indices under Minify, …) an operator ending in a sign and an operand starting with the same sign
// fuse into another operator ("b--1", "--a"). So in the function that prints arithmetic expressions, on every path
// from the write of an operator's text to the recursive call that prints the next operand, either a space is written
// or a predicate is consulted whose arguments include that very operand — the place where "would these two glue?" is
// decided. The rule decides that the question is asked, not that the answer is right.
func checkArithmOperatorsKeptApart(p *Prog, r *Result, rule string) {
	pkg := p.Pkg("syntax")
	info := pkg.TypesInfo
	fd := p.FuncDecl("syntax", "Printer.arithmExprRecurse")
	spaceFn := lookupFunc(pkg, "Printer.space")
	if fd == nil || spaceFn == nil {
		r.Fatalf("anchors Printer.arithmExprRecurse / Printer.space not found")
		return
	}
	self, _ := info.Defs[fd.Name].(*types.Func)
	g := NewFGraph(info, fd.Body, nil)
	isOpWrite := func(n ast.Node) *ast.CallExpr {
		var out *ast.CallExpr
		inspectNoLit(n, func(m ast.Node) bool {
			c, ok := m.(*ast.CallExpr)
			if !ok || len(c.Args) != 1 || out != nil {
				return true
			}
			se, ok := ast.Unparen(c.Fun).(*ast.SelectorExpr)
			if !ok || !strings.HasPrefix(se.Sel.Name, "Write") {
				return true
			}
			// the argument is <expr>.Op.String()
			ac, ok := ast.Unparen(c.Args[0]).(*ast.CallExpr)
			if !ok {
				return true
			}
			as, ok := ast.Unparen(ac.Fun).(*ast.SelectorExpr)
			if !ok || as.Sel.Name != "String" {
				return true
			}
			if fv := selectorField(info, as.X); fv != nil && fv.Name() == "Op" {
				out = c
			}
			return true
		})
		return out
	}
	recursive := func(n ast.Node) *ast.CallExpr {
		var out *ast.CallExpr
		inspectNoLit(n, func(m ast.Node) bool {
			if c, ok := m.(*ast.CallExpr); ok && out == nil {
				if callee := calleeOf(info, c); callee != nil && callee.Origin() == self {
					out = c
				}
			}
			return true
		})
		return out
	}
	n := 0
	for _, b := range g.Blocks {
		for i, nd := range b.Nodes {
			w := isOpWrite(nd)
			if w == nil {
				continue
			}
			// which operand comes next on each path, and was the question asked before it?
			type state struct {
				blk *FBlock
				idx int
			}
			bad := ""
			found := false
			visited := map[*FBlock]bool{}
			var walk func(blk *FBlock, from int, asked map[string]bool)
			walk = func(blk *FBlock, from int, asked map[string]bool) {
				for _, x := range blk.Nodes[from:] {
					if rc := recursive(x); rc != nil {
						found = true
						if len(rc.Args) > 0 && !asked["*"] && !asked[exprString(rc.Args[0])] {
							bad = exprString(rc.Args[0])
						}
						return
					}
					// a space written unconditionally on this path
					spaced := false
					inspectNoLit(x, func(m ast.Node) bool {
						if c, ok := m.(*ast.CallExpr); ok {
							if callee := calleeOf(info, c); callee != nil && callee.Origin() == spaceFn {
								spaced = true
							}
						}
						return true
					})
					if spaced {
						asked = map[string]bool{"*": true}
						continue
					}
					// a condition that consults a predicate over an operand
					if e, isExpr := x.(ast.Expr); isExpr {
						ast.Inspect(e, func(m ast.Node) bool {
							if c, ok := m.(*ast.CallExpr); ok {
								for _, a := range c.Args {
									if _, isSel := ast.Unparen(a).(*ast.SelectorExpr); isSel {
										na := map[string]bool{}
										for k := range asked {
											na[k] = true
										}
										na[exprString(a)] = true
										asked = na
									}
								}
							}
							return true
						})
					}
				}
				for _, e := range blk.Succs {
					if !visited[e.To] || true {
						if visited[e.To] {
							continue
						}
						visited[e.To] = true
						walk(e.To, 0, asked)
					}
				}
			}
			walk(b, i+1, map[string]bool{})
			if !found {
				continue // a postfix operator: nothing is printed after it
			}
			n++
			key := fmt.Sprintf("syntax.(Printer).arithmExprRecurse#operator #%d is kept apart from the operand after it", n)
			r.Check(bad == "", rule, key, w.Pos(), "a space is written, or a predicate over the following operand is consulted, on every path to the operand",
				fmt.Sprintf("an operator's text is written and the operand %s is printed right after it on a path where no space is written and nothing asks whether the two would fuse: \"b - -1\" printed without spaces is \"b--1\", and \"- -a\" is the pre-decrement \"--a\"", bad))
		}
	}
	if n == 0 {
		r.Bad(rule, "syntax.(Printer).arithmExprRecurse#writes operators", fd.Pos(), "no write of an operator followed by an operand found: the rule no longer sees the construct it is about")
	}
}

// R01g: the parts of one word are printed back to back; a space written between two of them makes two words of one
// (`echo $(a)<(b)` became `echo $(a) <(b)`: another argument list). A clause of Printer.wordPart that writes a space
// when p.wantSpace asks for one (the process substitution does, to keep `< <(foo)` apart) may therefore only see that
// request for the first part of a word: in Printer.wordParts, for every such part type, the loop stores
// p.wantSpace = spaceNotRequired before printing a part of that type that is not the first (under `i > 0`).
func checkNoSpaceInsideWord(p *Prog, r *Result, rule string) {
	pkg := p.Pkg("syntax")
	info := pkg.TypesInfo
	part := p.FuncDecl("syntax", "Printer.wordPart")
	parts := p.FuncDecl("syntax", "Printer.wordParts")
	spaceFn := lookupFunc(pkg, "Printer.space")
	notReq, _ := pkg.Types.Scope().Lookup("spaceNotRequired").(*types.Const)
	if part == nil || parts == nil || spaceFn == nil || notReq == nil {
		r.Fatalf("anchors Printer.wordPart / wordParts / space / spaceNotRequired not found")
		return
	}
	// part types whose clause writes a space directly
	var ts *ast.TypeSwitchStmt
	ast.Inspect(part.Body, func(n ast.Node) bool {
		if t, ok := n.(*ast.TypeSwitchStmt); ok && ts == nil {
			ts = t
		}
		return true
	})
	if ts == nil {
		r.Undecided(rule, "syntax.(Printer).wordPart#type switch", part.Pos(), "the type switch over the word part was not found")
		return
	}
	var spaced []*types.TypeName
	for _, st := range ts.Body.List {
		cc := st.(*ast.CaseClause)
		writes := false
		for _, b := range cc.Body {
			inspectNoLit(b, func(m ast.Node) bool {
				if c, ok := m.(*ast.CallExpr); ok {
					if callee := calleeOf(info, c); callee != nil && callee.Origin() == spaceFn {
						writes = true
					}
				}
				return true
			})
		}
		if !writes {
			continue
		}
		for _, e := range cc.List {
			if pt, ok := info.TypeOf(e).(*types.Pointer); ok {
				if nt := namedOf(pt.Elem()); nt != nil {
					spaced = append(spaced, nt.Obj())
				}
			}
		}
	}
	if len(spaced) == 0 {
		r.Notef("%s: no clause of wordPart writes a space of its own", rule)
		return
	}
	g := NewFGraph(info, parts.Body, nil)
	for _, tn := range spaced {
		key := fmt.Sprintf("syntax.(Printer).wordParts#a %s that is not the first part sees no request for a space", tn.Name())
		ok := false
		for _, b := range g.Blocks {
			for _, nd := range b.Nodes {
				as, isAs := nd.(*ast.AssignStmt)
				if !isAs || len(as.Lhs) != 1 || len(as.Rhs) != 1 {
					continue
				}
				if fv := selectorField(info, as.Lhs[0]); fv == nil || fv.Name() != "wantSpace" {
					continue
				}
				if tv, has := info.Types[as.Rhs[0]]; !has || tv.Value == nil || tv.Value.ExactString() != notReq.Val().ExactString() {
					continue
				}
				// under `i > 0` (or `i != 0`, `i >= 1`) and under a successful assertion to *T
				underIdx := underEdges(g, b, func(e *FEdge) bool {
					if e.Cond == nil || !e.Pol || e.Tag != nil {
						return false
					}
					be, isBin := ast.Unparen(e.Cond).(*ast.BinaryExpr)
					if !isBin {
						return false
					}
					s := exprString(be)
					return s == "i > 0" || s == "i != 0" || s == "i >= 1" || s == "0 < i"
				})
				asserts := false
				ast.Inspect(parts.Body, func(m ast.Node) bool {
					is, isIf := m.(*ast.IfStmt)
					if !isIf || !(is.Body.Pos() <= as.Pos() && as.End() <= is.Body.End()) {
						return true
					}
					ast.Inspect(is, func(k ast.Node) bool {
						if ta, isTA := k.(*ast.TypeAssertExpr); isTA && ta.Type != nil {
							if pt, isPtr := info.TypeOf(ta.Type).(*types.Pointer); isPtr && namedOf(pt.Elem()) != nil && namedOf(pt.Elem()).Obj() == tn {
								asserts = true
							}
						}
						return true
					})
					return true
				})
				if underIdx && asserts {
					ok = true
				}
			}
		}
		r.Check(ok, rule, key, parts.Pos(), "wordParts stores p.wantSpace = spaceNotRequired before printing such a part when it is not the first",
			fmt.Sprintf("the clause of wordPart for %s writes a space when p.wantSpace asks for one, and wordParts does not clear that request for a part that is not the first of its word: a space is printed in the middle of the word, which becomes two arguments", tn.Name()))
	}
}

// R01h: table agreement inside the printer. "( (" must keep its space (since "((" begins an arithmetic command), and
// the printer decides that with startsWithLparen(stmt). So every command type whose printing can begin with "(" — the
// first thing its clause of Printer.command writes, on some path, is a constant that starts with '(' — has a case in
// startsWithLparen. The first write is found on the clause's flow graph: constant arguments of WriteString/WriteByte/
// spacedString/spacedToken; a call of any other printer method ends the path (what it writes first is its own business).
func checkLparenStartersListed(p *Prog, r *Result, rule string) {
	pkg := p.Pkg("syntax")
	info := pkg.TypesInfo
	cmdFD := p.FuncDecl("syntax", "Printer.command")
	lpFD := p.FuncDecl("syntax", "startsWithLparen")
	printerT := lookupType(pkg, "Printer")
	if cmdFD == nil || lpFD == nil || printerT == nil {
		r.Fatalf("anchors Printer.command / startsWithLparen not found")
		return
	}
	listed := map[*types.TypeName]bool{}
	ast.Inspect(lpFD.Body, func(n ast.Node) bool {
		if cc, ok := n.(*ast.CaseClause); ok {
			for _, e := range cc.List {
				if pt, ok := info.TypeOf(e).(*types.Pointer); ok {
					if nt := namedOf(pt.Elem()); nt != nil {
						listed[nt.Obj()] = true
					}
				}
			}
		}
		return true
	})
	var ts *ast.TypeSwitchStmt
	ast.Inspect(cmdFD.Body, func(n ast.Node) bool {
		if t, ok := n.(*ast.TypeSwitchStmt); ok && ts == nil {
			ts = t
		}
		return true
	})
	if ts == nil {
		r.Undecided(rule, "syntax.(Printer).command#type switch", cmdFD.Pos(), "the type switch over the command was not found")
		return
	}
	g := NewFGraph(info, cmdFD.Body, nil)
	// classify a node: +1 it writes a constant starting with '(', -1 it writes something else / calls on, 0 nothing
	firstWrite := func(nd ast.Node) int {
		res := 0
		if rs, isRange := nd.(*ast.RangeStmt); isRange {
			nd = rs.X // the loop head stands for the evaluation of the ranged expression, not for the body
		}
		inspectNoLit(nd, func(m ast.Node) bool {
			c, ok := m.(*ast.CallExpr)
			if !ok || res != 0 {
				return true
			}
			se, ok := ast.Unparen(c.Fun).(*ast.SelectorExpr)
			if !ok {
				return true
			}
			name := se.Sel.Name
			isWrite := name == "WriteString" || name == "WriteByte" || name == "WriteRune" || name == "spacedString" || name == "spacedToken" || name == "writeLit"
			if isWrite && len(c.Args) >= 1 {
				if tv, has := info.Types[c.Args[0]]; has && tv.Value != nil {
					s := tv.Value.ExactString()
					if strings.HasPrefix(s, `"(`) || s == "40" {
						res = 1
						return true
					}
				}
				res = -1
				return true
			}
			if callee := calleeOf(info, c); callee != nil {
				if sig, ok := callee.Type().(*types.Signature); ok && sig.Recv() != nil && namedOf(derefType(sig.Recv().Type())) == printerT {
					res = -1
				}
			}
			return true
		})
		return res
	}
	n := 0
	for _, st := range ts.Body.List {
		cc := st.(*ast.CaseClause)
		if len(cc.List) == 0 || len(cc.Body) == 0 {
			continue
		}
		// the graph node at which the clause body starts: the one with the smallest position inside the clause
		var start *FBlock
		startIdx := 0
		var best token.Pos
		for _, b := range g.Blocks {
			for i, nd := range b.Nodes {
				if nd.Pos() >= cc.Body[0].Pos() && nd.End() <= cc.End() && (start == nil || nd.Pos() < best) {
					start, startIdx, best = b, i, nd.Pos()
				}
			}
		}
		if start == nil {
			continue
		}
		may := false
		seen := map[*FBlock]bool{}
		var walk func(b *FBlock, from int)
		walk = func(b *FBlock, from int) {
			for _, nd := range b.Nodes[from:] {
				if nd.Pos() < cc.Pos() || nd.End() > cc.End() {
					return
				}
				switch firstWrite(nd) {
				case 1:
					may = true
					return
				case -1:
					return
				}
			}
			for _, e := range b.Succs {
				if !seen[e.To] {
					seen[e.To] = true
					walk(e.To, 0)
				}
			}
		}
		walk(start, startIdx)
		if !may {
			continue
		}
		for _, e := range cc.List {
			pt, ok := info.TypeOf(e).(*types.Pointer)
			if !ok || namedOf(pt.Elem()) == nil {
				continue
			}
			tn := namedOf(pt.Elem()).Obj()
			n++
			r.Check(listed[tn], rule, fmt.Sprintf("syntax.startsWithLparen#%s, whose printing can begin with \"(\", is listed", tn.Name()), cc.Pos(), "has a case in startsWithLparen",
				fmt.Sprintf("the clause of Printer.command for %s can write \"(\" first, and startsWithLparen has no case for it: after an opening parenthesis the two are printed as \"((\", which begins an arithmetic command", tn.Name()))
		}
	}
	if n == 0 {
		r.Bad(rule, "syntax.(Printer).command#no clause starts with (", cmdFD.Pos(), "no command clause was found to begin with \"(\": the rule no longer sees the construct it is about")
	}
}

// R01i: Printer.wroteSemi means "a separator was written for the statement that is being printed"; stmtList, semiRsrv
// and semiOrNewl leave out the `;` they would write when it is set. Printer.command also sets it for a purpose of its
// own — so that no `;` is written before the closing word of a construct that is empty or already ends in `;;` — and
// what follows the construct on the same line still needs its separator. Every store of true in Printer.command is
// therefore followed, on every path to the function's return, by a store of false.
func checkSeparatorFlagCleared(p *Prog, r *Result, rule string) int {
	pkg := p.Pkg("syntax")
	info := pkg.TypesInfo
	fd := p.FuncDecl("syntax", "Printer.command")
	if fd == nil {
		r.Undecided(rule, "syntax.(Printer).command", token.NoPos, "anchor not found")
		return 0
	}
	g := NewFGraph(info, fd.Body, nil)
	store := func(nd ast.Node, want string) bool {
		as, ok := nd.(*ast.AssignStmt)
		if !ok || len(as.Lhs) != len(as.Rhs) {
			return false
		}
		for i, l := range as.Lhs {
			if fv := selectorField(info, l); fv != nil && fv.Name() == "wroteSemi" {
				if tv, ok := info.Types[as.Rhs[i]]; ok && tv.Value != nil && tv.Value.ExactString() == want {
					return true
				}
			}
		}
		return false
	}
	// printer methods every path of which stores false
	clears := map[*types.Func]bool{}
	for _, cfd := range p.AllFuncDecls("syntax") {
		if cfd.Body == nil || recvTypeName(cfd) != "Printer" || cfd == fd {
			continue
		}
		_ = cfd
	}
	for changed := true; changed; {
		changed = false
		for _, cfd := range p.AllFuncDecls("syntax") {
			if cfd.Body == nil || recvTypeName(cfd) != "Printer" || cfd == fd {
				continue
			}
			fo, isFn := info.Defs[cfd.Name].(*types.Func)
			if !isFn || clears[fo] {
				continue
			}
			cg := NewFGraph(info, cfd.Body, nil)
			if ok, _ := cg.MustPass(cg.Entry, -1, cg.Exit, func(m ast.Node) bool {
				if store(m, "false") {
					return true
				}
				for _, c := range nodeCalls(m) {
					if callee := calleeOf(info, c); callee != nil && clears[callee] {
						return true
					}
				}
				return false
			}, nil); ok {
				clears[fo] = true
				changed = true
			}
		}
	}
	n, nStore := 0, 0
	// the statements inside a construct leave the flag as their last separator left it (`foo &` sets it); the
	// construct's closing word or parenthesis consumes it. So after every nested statement list, every path to the
	// printing function's return passes a store of false or a method that makes one.
	nested := lookupFunc(pkg, "Printer.nestedStmts")
	for _, cfd := range p.AllFuncDecls("syntax") {
		if cfd.Body == nil || recvTypeName(cfd) != "Printer" || nested == nil {
			continue
		}
		var cg *FGraph
		k := 0
		inspectNoLit(cfd.Body, func(m ast.Node) bool {
			c, ok := m.(*ast.CallExpr)
			if !ok || calleeOf(info, c) != nested {
				return true
			}
			if cg == nil {
				cg = NewFGraph(info, cfd.Body, nil)
			}
			k++
			n++
			key := fmt.Sprintf("%s#nested statement list %d is closed by something that clears the separator flag", funcKey("syntax", cfd), k)
			blk, idx := cg.BlockOf(c)
			if blk == nil {
				if b2 := blockContaining(cg, c); b2 != nil {
					blk = b2
					for i, nd := range b2.Nodes {
						if nd.Pos() <= c.Pos() && c.End() <= nd.End() {
							idx = i
						}
					}
				}
			}
			if blk == nil {
				r.Undecided(rule, key, c.Pos(), "the call was not found in the flow graph")
				return true
			}
			ok2, _ := cg.MustPass(blk, idx, cg.Exit, func(q ast.Node) bool {
				if store(q, "false") {
					return true
				}
				for _, cc := range nodeCalls(q) {
					if callee := calleeOf(info, cc); callee != nil && clears[callee] {
						return true
					}
				}
				return false
			}, nil)
			r.Check(ok2, rule, key, c.Pos(), "every path from the list to the function's return writes the closing token through a method that clears the flag",
				"after this nested statement list the function can return with wroteSemi as the last inner statement left it: `foo &` inside sets it, and the statement list outside then writes no separator — with SingleLine `(foo &)` followed by `bar` prints as `(foo &) bar`, and `echo $(foo &)` followed by `bar` becomes one command")
			return true
		})
	}
	for _, b := range g.Blocks {
		for i, nd := range b.Nodes {
			if !store(nd, "true") {
				continue
			}
			n++
			nStore++
			key := fmt.Sprintf("%s#store %d of wroteSemi = true is undone before the command ends", funcKey("syntax", fd), nStore)
			ok, _ := g.MustPass(b, i, g.Exit, func(m ast.Node) bool {
				if store(m, "false") {
					return true
				}
				// or a printer method that clears it on every path (the one that writes the closing word)
				for _, c := range nodeCalls(m) {
					if callee := calleeOf(info, c); callee != nil && clears[callee] {
						return true
					}
				}
				return false
			}, nil)
			r.Check(ok, rule, key, nd.Pos(), "every path from the store to the function's return stores false",
				"Printer.command sets wroteSemi — to keep a `;` from being written before the construct's own closing word — and can return with it still set: the statement list then takes it for the separator of the statement that follows on the same line and writes none, as in `case x in a) foo ;; esac bar` under SingleLine, which does not parse")
		}
	}
	return n
}

// R01j: a here-document's body is written after the line that holds its operator, from the printer's queue of pending
// bodies. Print accepts a file, a statement, a command or a word as the root, and any of them can hold a here-document
// (a pipeline printed on its own, an argument word with a command substitution). So every path through Print that
// ends in success passes flushHeredocs: a body still queued when Print returns is simply missing from the output.
func checkPrintFlushesHeredocs(p *Prog, r *Result, rule string) int {
	pkg := p.Pkg("syntax")
	info := pkg.TypesInfo
	fd := p.FuncDecl("syntax", "Printer.Print")
	flush := lookupFunc(pkg, "Printer.flushHeredocs")
	if fd == nil || flush == nil {
		r.Undecided(rule, "syntax.(Printer).Print", token.NoPos, "anchors not found")
		return 0
	}
	g := NewFGraph(info, fd.Body, nil)
	// the nodes that write the tree: calls into the printer other than reset and the flushes
	n := 0
	for _, b := range g.Blocks {
		for i, nd := range b.Nodes {
			es, ok := nd.(*ast.ExprStmt)
			if !ok {
				continue
			}
			c, ok := es.X.(*ast.CallExpr)
			if !ok {
				continue
			}
			callee := calleeOf(info, c)
			if callee == nil || callee == flush || callee.Pkg() != pkg.Types {
				continue
			}
			sig := callee.Type().(*types.Signature)
			if sig.Recv() == nil || recvNamed(sig) != "Printer" {
				continue
			}
			switch callee.Name() {
			case "reset", "flushComments", "newline", "newlines":
				continue
			}
			n++
			key := fmt.Sprintf("%s#after %s the pending here-documents are flushed", funcKey("syntax", fd), callee.Name())
			// every path from here to a return passes the flush, unless it returns an error
			ok2, _ := g.MustPass(b, i, g.Exit, func(m ast.Node) bool {
				for _, cc := range nodeCalls(m) {
					if calleeOf(info, cc) == flush {
						return true
					}
				}
				return false
			}, nil)
			r.Check(ok2, rule, key, nd.Pos(), "every path from this call to Print's return passes flushHeredocs",
				fmt.Sprintf("Print can return after %s without flushing the pending here-document bodies: a command or word printed on its own that holds a here-document comes out as `cat <<EOF | tr a-z A-Z` with no body, which does not parse", callee.Name()))
		}
	}
	return n
}

// R01k: the parser and the printer agree on where the body of a pending here-document goes when the rest of its line
// opens a construct that spans lines. The parser "buries" the pending list (preNested) while it reads the statements
// of a command or process substitution — their body comes after the line that closes the substitution — and un-buries
// it for a subshell and a case item, where, as in Bash, the body follows the first newline inside. The printer writes
// pending bodies at the next newline it emits. So for every node type whose statement list the parser reads buried,
// the printer sets its pending list aside (stores nil, restores afterwards) around the nested statements, and for the
// others it does not.
func checkHeredocBuryingAgrees(p *Prog, r *Result, rule string) int {
	pkg := p.Pkg("syntax")
	info := pkg.TypesInfo
	pre := lookupFunc(pkg, "Parser.preNested")
	nested := lookupFunc(pkg, "Printer.nestedStmts")
	if pre == nil || nested == nil {
		r.Undecided(rule, "syntax#Parser.preNested / Printer.nestedStmts", token.NoPos, "anchors not found")
		return 0
	}
	// parser: node type -> buried?
	type site struct {
		buried bool
		where  string
	}
	parser := map[string][]site{}
	for _, fd := range p.AllFuncDecls("syntax") {
		if fd.Body == nil || recvTypeName(fd) != "Parser" {
			continue
		}
		ast.Inspect(fd.Body, func(m ast.Node) bool {
			var list []ast.Stmt
			switch b := m.(type) {
			case *ast.BlockStmt:
				list = b.List
			case *ast.CaseClause:
				list = b.Body
			default:
				return true
			}
			for i, st := range list {
				as, ok := st.(*ast.AssignStmt)
				if !ok || len(as.Rhs) != 1 {
					continue
				}
				c, ok := ast.Unparen(as.Rhs[0]).(*ast.CallExpr)
				if !ok || calleeOf(info, c) != pre || len(as.Lhs) != 1 {
					continue
				}
				saved := exprString(as.Lhs[0])
				buried := true
				for _, st2 := range list[i+1:] {
					// p.postNested(saved) ends the region
					if es, ok := st2.(*ast.ExprStmt); ok {
						if c2, ok := es.X.(*ast.CallExpr); ok && len(c2.Args) == 1 && exprString(c2.Args[0]) == saved {
							break
						}
					}
					if a2, ok := st2.(*ast.AssignStmt); ok && len(a2.Lhs) == 1 && len(a2.Rhs) == 1 {
						if exprString(a2.Lhs[0]) == "p.buriedHdocs" && exprString(a2.Rhs[0]) == saved+".buriedHdocs" {
							buried = false
						}
						continue
					}
					// X.Stmts, X.Last = p.stmtList(...) / p.followStmts(...)
					if a2, ok := st2.(*ast.AssignStmt); ok && len(a2.Lhs) == 2 {
						if se, ok := ast.Unparen(a2.Lhs[0]).(*ast.SelectorExpr); ok && se.Sel.Name == "Stmts" {
							if nt := namedOf(derefType(info.TypeOf(se.X))); nt != nil {
								parser[nt.Obj().Name()] = append(parser[nt.Obj().Name()], site{buried, p.Position(a2.Pos())})
							}
						}
					}
				}
			}
			return true
		})
	}
	if len(parser) < 3 {
		r.Undecided(rule, "syntax.(Parser)#statement lists read in a nested state", token.NoPos, fmt.Sprintf("only %d node types found whose statements are read between preNested and postNested", len(parser)))
		return 0
	}
	n := 0
	for _, fd := range p.AllFuncDecls("syntax") {
		if fd.Body == nil || recvTypeName(fd) != "Printer" {
			continue
		}
		var g *FGraph
		seen := map[string]int{}
		inspectNoLit(fd.Body, func(m ast.Node) bool {
			c, ok := m.(*ast.CallExpr)
			if !ok || calleeOf(info, c) != nested || len(c.Args) == 0 {
				return true
			}
			se, ok := ast.Unparen(c.Args[0]).(*ast.SelectorExpr)
			if !ok {
				return true
			}
			nt := namedOf(derefType(info.TypeOf(se.X)))
			if nt == nil {
				return true
			}
			sites, known := parser[nt.Obj().Name()]
			if !known {
				return true
			}
			n++
			key := fmt.Sprintf("%s#statements of %s: pending here-documents set aside exactly where the parser buries them", funcKey("syntax", fd), nt.Obj().Name())
			seen[key]++
			if seen[key] > 1 {
				key += fmt.Sprintf("#%d", seen[key])
			}
			buried := sites[0].buried
			for _, s := range sites {
				if s.buried != buried {
					r.Undecided(rule, key, c.Pos(), "the parser reads the statements of this node type buried at one place and not at another")
					return true
				}
			}
			if g == nil {
				g = NewFGraph(info, fd.Body, nil)
			}
			blk := blockContaining(g, c)
			aside := false
			isAside := func(q ast.Node) bool {
				as, ok := q.(*ast.AssignStmt)
				if !ok || len(as.Lhs) != len(as.Rhs) {
					return false
				}
				for i, l := range as.Lhs {
					if fv := selectorField(info, l); fv != nil && fv.Name() == "pendingHdocs" && isNilIdent(info, as.Rhs[i]) {
						return true
					}
				}
				return false
			}
			if blk != nil {
				for _, nd := range blk.Nodes {
					if nd.End() <= c.Pos() && isAside(nd) {
						aside = true
					}
				}
			}
			if blk != nil && !aside {
				aside, _ = g.MustPass(g.Entry, -1, blk, func(q ast.Node) bool {
					as, ok := q.(*ast.AssignStmt)
					if !ok || len(as.Lhs) != len(as.Rhs) {
						return false
					}
					for i, l := range as.Lhs {
						if fv := selectorField(info, l); fv != nil && fv.Name() == "pendingHdocs" && isNilIdent(info, as.Rhs[i]) {
							return true
						}
					}
					return false
				}, nil)
			}
			switch {
			case buried && !aside:
				r.Bad(rule, key, c.Pos(), fmt.Sprintf("the parser reads the statements of a %s with the pending here-documents buried (%s): their body follows the line that closes it; the printer writes them at the first newline inside, so `cat <<A | foo $(bar; baz)` is printed with the body of A right after `$(` — unclosed for this parser and for Bash", nt.Obj().Name(), sites[0].where))
			case !buried && aside:
				r.Bad(rule, key, c.Pos(), fmt.Sprintf("the printer sets the pending here-documents aside around the statements of a %s, but the parser (%s) reads their body at the first newline inside: the body is printed where it is not read", nt.Obj().Name(), sites[0].where))
			case buried:
				r.OK(rule, key, c.Pos(), "buried by the parser, set aside by the printer")
			default:
				r.OK(rule, key, c.Pos(), "read at the first newline inside by the parser, written there by the printer")
			}
			return true
		})
	}
	return n
}

// R01l: a slice offset is printed right after the colon of `${a:…}`, and `:-`, `:+`, `:=` and `:?` are other
// expansions. The printer writes a space first when the offset begins with a sign; "begins with a sign" is every unary
// operator whose text starts with + or - — the increments as well as plus and minus. The operators' texts are the
// trailing comments of the constants' declarations (which go generate turns into String()), and each such constant must
// be listed in the switch that decides on the space.
func checkSliceSignsSpaced(p *Prog, r *Result, rule string) int {
	pkg := p.Pkg("syntax")
	info := pkg.TypesInfo
	unT := lookupType(pkg, "UnAritOperator")
	fd := p.FuncDecl("syntax", "Printer.arithmExprRecurse")
	if unT == nil || fd == nil {
		r.Undecided(rule, "syntax#UnAritOperator / Printer.arithmExprRecurse", token.NoPos, "anchors not found")
		return 0
	}
	// constants whose text begins with + or -
	signs := map[string]token.Pos{}
	for _, f := range pkg.Syntax {
		for _, d := range f.Decls {
			gd, ok := d.(*ast.GenDecl)
			if !ok || gd.Tok != token.CONST {
				continue
			}
			for _, sp := range gd.Specs {
				vs := sp.(*ast.ValueSpec)
				if vs.Comment == nil || len(vs.Names) != 1 {
					continue
				}
				c, ok := info.Defs[vs.Names[0]].(*types.Const)
				if !ok || namedOf(c.Type()) != unT {
					continue
				}
				text := strings.TrimSpace(vs.Comment.Text())
				if strings.HasPrefix(text, "+") || strings.HasPrefix(text, "-") {
					signs[c.Name()] = vs.Pos()
				}
			}
		}
	}
	if len(signs) < 2 {
		r.Undecided(rule, "syntax#UnAritOperator constants", token.NoPos, "the operator texts were not found in the constants' trailing comments")
		return 0
	}
	// the switch under `if spacePlusMinus`
	listed := map[string]bool{}
	found := false
	ast.Inspect(fd.Body, func(m ast.Node) bool {
		is, ok := m.(*ast.IfStmt)
		if !ok {
			return true
		}
		if id, ok := ast.Unparen(is.Cond).(*ast.Ident); !ok || !strings.Contains(strings.ToLower(id.Name), "plusminus") {
			return true
		}
		ast.Inspect(is.Body, func(q ast.Node) bool {
			cc, ok := q.(*ast.CaseClause)
			if !ok {
				return true
			}
			writesSpace := false
			for _, st := range cc.Body {
				ast.Inspect(st, func(k ast.Node) bool {
					if c, ok := k.(*ast.CallExpr); ok {
						if callee := calleeOf(info, c); callee != nil && callee.Name() == "space" {
							writesSpace = true
						}
					}
					return true
				})
			}
			if writesSpace {
				found = true
				for _, e := range cc.List {
					if id, ok := ast.Unparen(e).(*ast.Ident); ok {
						listed[id.Name] = true
					}
				}
			}
			return true
		})
		return true
	})
	if !found {
		r.Undecided(rule, funcKey("syntax", fd)+"#space before a leading sign", fd.Pos(), "the switch that writes a space before a leading sign was not found")
		return 0
	}
	n := 0
	var names []string
	for nm := range signs {
		names = append(names, nm)
	}
	sort.Strings(names)
	for _, nm := range names {
		n++
		r.Check(listed[nm], rule, fmt.Sprintf("%s#a leading %s is kept apart from the colon", funcKey("syntax", fd), nm), signs[nm], "listed in the switch that writes the space",
			fmt.Sprintf("the unary operator %s begins with a sign and is not among the operators before which a slice offset gets a space: `${a: %sb}` is printed without it and becomes another expansion (`${a:--b}` is a default value)", nm, map[string]string{"Inc": "++", "Dec": "--", "Plus": "+", "Minus": "-"}[nm]))
	}
	return n
}

// R01m: `<<` and `<<-` differ in one thing only — the tabs stripped from the body — and in everything else (the body is
// queued, written after the line, closed by its delimiter) what holds for one holds for the other. So wherever code of
// the module tests a redirection operator against the plain here-document operator, the same if/else chain or switch
// also mentions the dash variant; a test that singles out `<<-` (for the tabs) needs no counterpart.
func checkHeredocOperatorsTogether(p *Prog, r *Result, rule string) int {
	n := 0
	for _, rel := range []string{"syntax", "interp", "expand", "cmd/shfmt"} {
		pkg := p.Pkg(rel)
		if pkg == nil {
			continue
		}
		info := pkg.TypesInfo
		isConst := func(e ast.Expr, name string) bool {
			var id *ast.Ident
			switch x := ast.Unparen(e).(type) {
			case *ast.Ident:
				id = x
			case *ast.SelectorExpr:
				id = x.Sel
			}
			if id == nil || id.Name != name {
				return false
			}
			c, ok := info.ObjectOf(id).(*types.Const)
			return ok && typeName(c.Type()) == "RedirOperator"
		}
		mentions := func(root ast.Node, name string) bool {
			found := false
			ast.Inspect(root, func(q ast.Node) bool {
				if e, ok := q.(ast.Expr); ok && isConst(e, name) {
					found = true
				}
				return !found
			})
			return found
		}
		for _, fd := range p.AllFuncDecls(rel) {
			if fd.Body == nil || strings.HasSuffix(p.Position(fd.Pos()), "_test.go") || strings.HasSuffix(p.Fset.Position(fd.Pos()).Filename, "tokens_parse.go") || strings.HasSuffix(p.Fset.Position(fd.Pos()).Filename, "_string.go") {
				continue
			}
			k := 0
			var stack []ast.Node
			ast.Inspect(fd.Body, func(m ast.Node) bool {
				if m == nil {
					stack = stack[:len(stack)-1]
					return true
				}
				stack = append(stack, m)
				e, ok := m.(ast.Expr)
				if !ok || !isConst(e, "Hdoc") {
					return true
				}
				// the outermost if chain or the switch that holds the test
				var scope ast.Node
				for i := len(stack) - 1; i >= 0; i-- {
					switch x := stack[i].(type) {
					case *ast.SwitchStmt:
						if scope == nil {
							scope = x
						}
					case *ast.IfStmt:
						// only while the test is in the condition (or in an else-if's condition)
						if x.Cond.Pos() <= e.Pos() && e.End() <= x.Cond.End() {
							scope = x
						} else if scope != nil {
							if is, ok := scope.(*ast.IfStmt); ok && x.Else == ast.Stmt(is) {
								scope = x
							}
						}
					}
				}
				if scope == nil {
					return true // an assignment or an argument, not a test
				}
				k++
				n++
				key := fmt.Sprintf("%s#test %d of the here-document operator also covers <<-", funcKey(rel, fd), k)
				r.Check(mentions(scope, "DashHdoc"), rule, key, e.Pos(), "the same if chain or switch mentions DashHdoc",
					"a redirection is tested against `<<` and nothing in the same if chain or switch mentions `<<-`: what is decided there (the body is queued, set aside, printed after the line …) then holds for one kind of here-document only — `cat <<-EOF -n` loses its body")
				if _, isSel := e.(*ast.SelectorExpr); isSel {
					stack = stack[:len(stack)-1]
					return false // the selector's own identifier is the same test
				}
				return true
			})
		}
	}
	return n
}

// R01n: the line that closes a here-document is its delimiter and nothing else, except that `<<-` allows leading tabs.
// Printer.indent writes spaces when an indent width is configured; so inside flushHeredocs, which writes bodies and
// closing lines, it is called only where the indentation is known to be tabs (`p.indentSpaces == 0`).
func checkHeredocCloserIndentedWithTabs(p *Prog, r *Result, rule string) int {
	pkg := p.Pkg("syntax")
	info := pkg.TypesInfo
	fd := p.FuncDecl("syntax", "Printer.flushHeredocs")
	indent := lookupFunc(pkg, "Printer.indent")
	if fd == nil || indent == nil {
		r.Undecided(rule, "syntax.(Printer).flushHeredocs", token.NoPos, "anchors not found")
		return 0
	}
	g := NewFGraph(info, fd.Body, nil)
	n := 0
	inspectNoLit(fd.Body, func(m ast.Node) bool {
		c, ok := m.(*ast.CallExpr)
		if !ok || calleeOf(info, c) != indent {
			return true
		}
		n++
		key := fmt.Sprintf("%s#indentation %d before a closing line is tabs", funcKey("syntax", fd), n)
		blk := blockContaining(g, c)
		ok2 := blk != nil && underEdges(g, blk, func(e *FEdge) bool {
			be, ok := ast.Unparen(e.Cond).(*ast.BinaryExpr)
			if !ok || e.Tag != nil {
				return false
			}
			x, y := be.X, be.Y
			if tv0, ok := info.Types[x]; ok && tv0.Value != nil {
				x, y = y, x // 0 == p.indentSpaces
			}
			fv := selectorField(info, x)
			if fv == nil || fv.Name() != "indentSpaces" {
				return false
			}
			tv, has := info.Types[y]
			if !has || tv.Value == nil || tv.Value.ExactString() != "0" {
				return false
			}
			return (be.Op == token.EQL && e.Pol) || (be.Op == token.NEQ && !e.Pol)
		})
		r.Check(ok2, rule, key, c.Pos(), "reached only where p.indentSpaces == 0",
			"flushHeredocs indents a closing line on a path where the indentation may be spaces: `<<-` strips leading tabs only, so with Indent(n) the closing word of a nested `<<-` here-document gets n·level spaces in front, is no longer the delimiter, and the here-document runs to the end of the file")
		return true
	})
	return n
}
