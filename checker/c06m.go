package main

import (
	"fmt"
	"go/ast"
	"go/constant"
	"go/token"
	"go/types"
	"sort"
	"strings"

	"golang.org/x/tools/go/packages"
)

// R06m: a recursive-descent parser uses one stack frame chain per level of nesting in the input, and Go ends the
// process — not a recoverable panic — when a goroutine's stack passes its limit (1 GB). The rule finds the recursion
// cycles among the parser's methods (strongly connected components of the static call graph) and asks that some
// function on each cycle compare a counter it maintains against a constant limit, the way typedjson's decoder would.
// It decides the structural fact (an unbounded cycle exists), not how deep the stack can actually get.
func checkRecursionBounded(p *Prog, r *Result, pkg *packages.Package, rule string) {
	info := pkg.TypesInfo
	fgs := newFuncGraphs(pkg)
	var fos []*types.Func
	for fo, fd := range fgs.decls {
		if recvTypeName(fd) == "Parser" && !strings.HasSuffix(p.Position(fd.Pos()), "_test.go") {
			fos = append(fos, fo)
		}
	}
	sort.Slice(fos, func(i, j int) bool { return fos[i].Name() < fos[j].Name() })
	in := map[*types.Func]bool{}
	for _, fo := range fos {
		in[fo] = true
	}
	succ := map[*types.Func][]*types.Func{}
	for _, fo := range fos {
		seen := map[*types.Func]bool{}
		ast.Inspect(fgs.decls[fo].Body, func(n ast.Node) bool {
			if c, ok := n.(*ast.CallExpr); ok {
				if callee := calleeOf(info, c); callee != nil && in[callee.Origin()] && !seen[callee.Origin()] {
					seen[callee.Origin()] = true
					succ[fo] = append(succ[fo], callee.Origin())
				}
			}
			return true
		})
	}
	// Tarjan
	index, low := map[*types.Func]int{}, map[*types.Func]int{}
	onStack := map[*types.Func]bool{}
	var stack []*types.Func
	var sccs [][]*types.Func
	next := 0
	var strong func(v *types.Func)
	strong = func(v *types.Func) {
		index[v], low[v] = next, next
		next++
		stack = append(stack, v)
		onStack[v] = true
		for _, w := range succ[v] {
			if _, seen := index[w]; !seen {
				strong(w)
				low[v] = min(low[v], low[w])
			} else if onStack[w] {
				low[v] = min(low[v], index[w])
			}
		}
		if low[v] == index[v] {
			var comp []*types.Func
			for {
				w := stack[len(stack)-1]
				stack = stack[:len(stack)-1]
				onStack[w] = false
				comp = append(comp, w)
				if w == v {
					break
				}
			}
			sccs = append(sccs, comp)
		}
	}
	for _, fo := range fos {
		if _, seen := index[fo]; !seen {
			strong(fo)
		}
	}
	parserT := lookupType(pkg, "Parser")
	// fields that are both incremented and decremented somewhere: candidate depth counters
	counters := map[*types.Var]bool{}
	incd, decd := map[*types.Var]bool{}, map[*types.Var]bool{}
	for _, fo := range fos {
		ast.Inspect(fgs.decls[fo].Body, func(n ast.Node) bool {
			if s, ok := n.(*ast.IncDecStmt); ok {
				if fv := selectorField(info, s.X); fv != nil {
					if s.Tok == token.INC {
						incd[fv] = true
					} else {
						decd[fv] = true
					}
				}
			}
			return true
		})
	}
	for fv := range incd {
		if decd[fv] {
			counters[fv] = true
		}
	}
	_ = parserT
	bounded := func(comp []*types.Func) bool {
		for _, fo := range comp {
			ok := false
			ast.Inspect(fgs.decls[fo].Body, func(n ast.Node) bool {
				be, isBin := n.(*ast.BinaryExpr)
				if !isBin || (be.Op != token.GTR && be.Op != token.GEQ && be.Op != token.LSS && be.Op != token.LEQ) {
					return true
				}
				for _, side := range [][2]ast.Expr{{be.X, be.Y}, {be.Y, be.X}} {
					if fv := selectorField(info, side[0]); fv != nil && counters[fv] {
						if tv, has := info.Types[side[1]]; has && tv.Value != nil {
							// a limit, not a test for "any open": the constant is a real bound
							if v, exact := constant.Int64Val(constant.ToInt(tv.Value)); exact && v >= 16 {
								ok = true
							}
						} else if fv2 := selectorField(info, side[1]); fv2 != nil && strings.Contains(strings.ToLower(fv2.Name()), "max") {
							ok = true
						}
					}
				}
				return true
			})
			if ok {
				return true
			}
		}
		return false
	}
	var unbounded []string
	total, biggest := 0, 0
	for _, comp := range sccs {
		self := false
		if len(comp) == 1 {
			for _, w := range succ[comp[0]] {
				if w == comp[0] {
					self = true
				}
			}
			if !self {
				continue
			}
		}
		total++
		if !bounded(comp) {
			names := make([]string, len(comp))
			for i, fo := range comp {
				names[i] = fo.Name()
			}
			sort.Strings(names)
			biggest = max(biggest, len(comp))
			show := names
			if len(show) > 6 {
				show = append(append([]string{}, names[:6]...), fmt.Sprintf("… %d more", len(names)-6))
			}
			unbounded = append(unbounded, "{"+strings.Join(show, ", ")+"}")
		}
	}
	// The lexer is a different matter: tokens do not nest, so a function of lexer.go that calls itself does so once per
	// repetition in the input (next() used to, once per comment line), and millions of repetitions are ordinary input.
	nLex := 0
	for _, fo := range fos {
		fd := fgs.decls[fo]
		if !strings.HasSuffix(p.Fset.Position(fd.Pos()).Filename, "/lexer.go") {
			continue
		}
		nLex++
		var at token.Pos
		ast.Inspect(fd.Body, func(n ast.Node) bool {
			if c, ok := n.(*ast.CallExpr); ok && at == token.NoPos {
				if callee := calleeOf(info, c); callee != nil && callee.Origin() == fo {
					at = c.Pos()
				}
			}
			return true
		})
		pos := fd.Pos()
		if at != token.NoPos {
			pos = at
		}
		r.Check(at == token.NoPos, rule, funcObjKey(fo)+"#a lexer function does not call itself", pos, "no direct self-call: repetition in the input is read in a loop",
			"a function of the lexer calls itself: tokens do not nest, so this recursion is one frame per repetition in the input (per comment line, per run of blanks …), and an input with a few million of them in a row ends the process with a fatal stack overflow")
	}
	if nLex < 15 {
		r.Undecided(rule, "syntax/lexer.go#lexer functions", token.NoPos, fmt.Sprintf("only %d methods of Parser found in lexer.go", nLex))
	}
	sort.Strings(unbounded)
	key := "syntax.(Parser)#recursive descent is bounded by a depth limit"
	r.Check(len(unbounded) == 0, rule, key, token.NoPos, fmt.Sprintf("each of the %d recursion cycles among the parser's methods compares a depth counter with a limit", total),
		fmt.Sprintf("%d of the %d recursion cycles among the parser's methods have no function that compares a depth counter with a limit (the largest has %d functions: %s): nesting in the input is unbounded, every level costs stack frames, and Go aborts the process — fatal error: stack overflow, not a panic that could be recovered — when the stack passes 1 GB", len(unbounded), total, biggest, strings.Join(unbounded, " ")))
}
