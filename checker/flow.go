package main

import (
	"go/ast"
	"go/token"
	"go/types"
)

// A small control-flow graph over the typed AST. It differs from go/cfg in
// three ways the rules need: short-circuit conditions are decomposed so every
// conditional edge carries one atomic condition and its polarity; switch edges
// remember tag and case; and there are distinguished virtual Exit (normal
// return) and Abort (panic / never-returning call) blocks.

type FBlock struct {
	Index int
	Nodes []ast.Node
	Succs []*FEdge
	Preds []*FEdge
	Stmt  ast.Stmt // control statement that created the block (may be nil)
	Kind  string
}

type FEdge struct {
	From, To *FBlock
	Cond     ast.Expr // atomic condition, or case expression if Tag != nil / TypeCase
	Pol      bool     // edge taken when Cond evaluates to Pol
	Tag      ast.Expr // switch tag for value-switch edges
	Sw       *ast.SwitchStmt
	TypeCase bool     // Cond is a type of a type switch on TagAssign
	TSwitch  *ast.TypeSwitchStmt
	Clause   *ast.CaseClause // clause entered by this edge (nil for "next case" edges)
	Default  bool            // edge into the default clause (all cases failed)
	Back     bool            // loop back-edge
}

type FGraph struct {
	Blocks []*FBlock
	Entry  *FBlock
	Exit   *FBlock // all returns
	Abort  *FBlock // panics and calls that never return
	Body   *ast.BlockStmt
	info   *types.Info

	where map[ast.Node]*FBlock
}

type fbuilder struct {
	g        *FGraph
	cur      *FBlock
	targets  *ftargets
	labels   map[string]*flabel
	noReturn func(*ast.CallExpr) bool
}

type ftargets struct {
	tail                 *ftargets
	brk, cont, fallthru *FBlock
}
type flabel struct{ gto, brk, cont *FBlock }

// NewFGraph builds the graph of a function body. noReturn tells which calls
// never return (besides the builtin panic, which is always recognised).
func NewFGraph(info *types.Info, body *ast.BlockStmt, noReturn func(*ast.CallExpr) bool) *FGraph {
	g := &FGraph{Body: body, info: info, where: map[ast.Node]*FBlock{}}
	b := &fbuilder{g: g, labels: map[string]*flabel{}, noReturn: noReturn}
	g.Entry = b.newBlock("entry", nil)
	g.Exit = b.newBlock("exit", nil)
	g.Abort = b.newBlock("abort", nil)
	b.cur = g.Entry
	b.stmtList(body.List)
	if b.cur != nil {
		b.jump(g.Exit)
	}
	return g
}

func (b *fbuilder) newBlock(kind string, s ast.Stmt) *FBlock {
	blk := &FBlock{Index: len(b.g.Blocks), Kind: kind, Stmt: s}
	b.g.Blocks = append(b.g.Blocks, blk)
	return blk
}

func (b *fbuilder) block() *FBlock {
	if b.cur == nil {
		b.cur = b.newBlock("unreachable", nil)
	}
	return b.cur
}

func (b *fbuilder) add(n ast.Node) {
	blk := b.block()
	blk.Nodes = append(blk.Nodes, n)
	b.g.where[n] = blk
}

func (b *fbuilder) edge(from, to *FBlock) *FEdge {
	e := &FEdge{From: from, To: to}
	from.Succs = append(from.Succs, e)
	to.Preds = append(to.Preds, e)
	return e
}

func (b *fbuilder) jump(to *FBlock) *FEdge {
	e := b.edge(b.block(), to)
	b.cur = nil
	return e
}

// cond emits the evaluation of a boolean expression with short-circuiting.
func (b *fbuilder) cond(e ast.Expr, t, f *FBlock) {
	e = ast.Unparen(e)
	switch x := e.(type) {
	case *ast.UnaryExpr:
		if x.Op == token.NOT {
			b.cond(x.X, f, t)
			return
		}
	case *ast.BinaryExpr:
		switch x.Op {
		case token.LAND:
			mid := b.newBlock("and", nil)
			b.cond(x.X, mid, f)
			b.cur = mid
			b.cond(x.Y, t, f)
			return
		case token.LOR:
			mid := b.newBlock("or", nil)
			b.cond(x.X, t, mid)
			b.cur = mid
			b.cond(x.Y, t, f)
			return
		}
	}
	b.add(e)
	from := b.block()
	et := b.edge(from, t)
	et.Cond, et.Pol = e, true
	ef := b.edge(from, f)
	ef.Cond, ef.Pol = e, false
	b.cur = nil
}

func (b *fbuilder) isPanic(call *ast.CallExpr) bool {
	if id, ok := ast.Unparen(call.Fun).(*ast.Ident); ok {
		if bi, ok := b.g.info.Uses[id].(*types.Builtin); ok && bi.Name() == "panic" {
			return true
		}
	}
	return b.noReturn != nil && b.noReturn(call)
}

func (b *fbuilder) stmtList(l []ast.Stmt) {
	for _, s := range l {
		b.stmt(s, nil)
	}
}

func (b *fbuilder) stmt(s ast.Stmt, label *flabel) {
	switch s := s.(type) {
	case *ast.BadStmt, *ast.SendStmt, *ast.IncDecStmt, *ast.GoStmt, *ast.EmptyStmt, *ast.AssignStmt, *ast.DeferStmt, *ast.DeclStmt:
		b.add(s)
	case *ast.ExprStmt:
		b.add(s)
		if call, ok := ast.Unparen(s.X).(*ast.CallExpr); ok && b.isPanic(call) {
			b.jump(b.g.Abort)
		}
	case *ast.LabeledStmt:
		lb := b.label(s.Label.Name)
		b.jump(lb.gto)
		b.cur = lb.gto
		b.stmt(s.Stmt, lb)
	case *ast.ReturnStmt:
		b.add(s)
		b.jump(b.g.Exit)
	case *ast.BranchStmt:
		b.branch(s)
	case *ast.BlockStmt:
		b.stmtList(s.List)
	case *ast.IfStmt:
		if s.Init != nil {
			b.stmt(s.Init, nil)
		}
		then := b.newBlock("if.then", s)
		done := b.newBlock("if.done", s)
		els := done
		if s.Else != nil {
			els = b.newBlock("if.else", s)
		}
		b.cond(s.Cond, then, els)
		b.cur = then
		b.stmt(s.Body, nil)
		if b.cur != nil {
			b.jump(done)
		}
		if s.Else != nil {
			b.cur = els
			b.stmt(s.Else, nil)
			if b.cur != nil {
				b.jump(done)
			}
		}
		b.cur = done
	case *ast.SwitchStmt:
		b.switchStmt(s, label)
	case *ast.TypeSwitchStmt:
		b.typeSwitchStmt(s, label)
	case *ast.SelectStmt:
		b.selectStmt(s, label)
	case *ast.ForStmt:
		b.forStmt(s, label)
	case *ast.RangeStmt:
		b.rangeStmt(s, label)
	}
}

func (b *fbuilder) label(name string) *flabel {
	lb := b.labels[name]
	if lb == nil {
		lb = &flabel{gto: b.newBlock("label", nil)}
		b.labels[name] = lb
	}
	return lb
}

func (b *fbuilder) branch(s *ast.BranchStmt) {
	var to *FBlock
	switch s.Tok {
	case token.BREAK:
		if s.Label != nil {
			to = b.label(s.Label.Name).brk
		} else {
			for t := b.targets; t != nil && to == nil; t = t.tail {
				to = t.brk
			}
		}
	case token.CONTINUE:
		if s.Label != nil {
			to = b.label(s.Label.Name).cont
		} else {
			for t := b.targets; t != nil && to == nil; t = t.tail {
				to = t.cont
			}
		}
	case token.FALLTHROUGH:
		for t := b.targets; t != nil && to == nil; t = t.tail {
			to = t.fallthru
		}
	case token.GOTO:
		to = b.label(s.Label.Name).gto
	}
	b.add(s)
	if to == nil {
		to = b.newBlock("unreachable", s)
	}
	b.jump(to)
}

func (b *fbuilder) switchStmt(s *ast.SwitchStmt, label *flabel) {
	if s.Init != nil {
		b.stmt(s.Init, nil)
	}
	if s.Tag != nil {
		b.add(s.Tag)
	}
	done := b.newBlock("switch.done", s)
	if label != nil {
		label.brk = done
	}
	n := len(s.Body.List)
	bodies := make([]*FBlock, n)
	for i, c := range s.Body.List {
		bodies[i] = b.newBlock("switch.body", c)
	}
	var defIdx = -1
	for i, c := range s.Body.List {
		cc := c.(*ast.CaseClause)
		if cc.List == nil {
			defIdx = i
			continue
		}
		for _, ce := range cc.List {
			next := b.newBlock("switch.next", cc)
			if s.Tag == nil {
				// boolean case: decompose; mark the entering edges
				pre := len(bodies[i].Preds)
				b.cond(ce, bodies[i], next)
				for _, e := range bodies[i].Preds[pre:] {
					e.Clause = cc
				}
			} else {
				b.add(ce)
				from := b.block()
				et := b.edge(from, bodies[i])
				et.Cond, et.Pol, et.Tag, et.Clause, et.Sw = ce, true, s.Tag, cc, s
				ef := b.edge(from, next)
				ef.Cond, ef.Pol, ef.Tag, ef.Sw = ce, false, s.Tag, s
				b.cur = nil
			}
			b.cur = next
		}
	}
	// all cases failed
	if defIdx >= 0 {
		e := b.jump(bodies[defIdx])
		e.Default, e.Clause, e.Tag = true, s.Body.List[defIdx].(*ast.CaseClause), s.Tag
	} else {
		e := b.jump(done)
		e.Default, e.Tag = true, s.Tag
	}
	for i, c := range s.Body.List {
		cc := c.(*ast.CaseClause)
		b.cur = bodies[i]
		ft := done
		if i+1 < n {
			ft = bodies[i+1]
		}
		b.targets = &ftargets{tail: b.targets, brk: done, fallthru: ft}
		b.stmtList(cc.Body)
		b.targets = b.targets.tail
		if b.cur != nil {
			b.jump(done)
		}
	}
	b.cur = done
}

func (b *fbuilder) typeSwitchStmt(s *ast.TypeSwitchStmt, label *flabel) {
	if s.Init != nil {
		b.stmt(s.Init, nil)
	}
	b.add(s.Assign)
	done := b.newBlock("tswitch.done", s)
	if label != nil {
		label.brk = done
	}
	var def *ast.CaseClause
	type pending struct {
		cc   *ast.CaseClause
		body *FBlock
	}
	var bodies []pending
	for _, c := range s.Body.List {
		cc := c.(*ast.CaseClause)
		if cc.List == nil {
			def = cc
			continue
		}
		body := b.newBlock("tswitch.body", cc)
		for _, ct := range cc.List {
			next := b.newBlock("tswitch.next", cc)
			from := b.block()
			et := b.edge(from, body)
			et.Cond, et.Pol, et.TypeCase, et.TSwitch, et.Clause = ct, true, true, s, cc
			ef := b.edge(from, next)
			ef.Cond, ef.Pol, ef.TypeCase, ef.TSwitch = ct, false, true, s
			b.cur = next
		}
		bodies = append(bodies, pending{cc, body})
	}
	if def != nil {
		body := b.newBlock("tswitch.default", def)
		e := b.jump(body)
		e.Default, e.Clause, e.TSwitch = true, def, s
		bodies = append(bodies, pending{def, body})
	} else {
		e := b.jump(done)
		e.Default, e.TSwitch = true, s
	}
	for _, p := range bodies {
		b.cur = p.body
		b.targets = &ftargets{tail: b.targets, brk: done}
		b.stmtList(p.cc.Body)
		b.targets = b.targets.tail
		if b.cur != nil {
			b.jump(done)
		}
	}
	b.cur = done
}

func (b *fbuilder) selectStmt(s *ast.SelectStmt, label *flabel) {
	b.add(s) // the select itself is a (possibly blocking) node
	done := b.newBlock("select.done", s)
	if label != nil {
		label.brk = done
	}
	from := b.block()
	b.cur = nil
	for _, c := range s.Body.List {
		cc := c.(*ast.CommClause)
		body := b.newBlock("select.body", cc)
		b.edge(from, body)
		b.cur = body
		if cc.Comm != nil {
			b.add(cc.Comm)
		}
		b.targets = &ftargets{tail: b.targets, brk: done}
		b.stmtList(cc.Body)
		b.targets = b.targets.tail
		if b.cur != nil {
			b.jump(done)
		}
	}
	if len(s.Body.List) == 0 {
		// select {} blocks forever
		b.edge(from, b.g.Abort)
	}
	b.cur = done
}

func (b *fbuilder) forStmt(s *ast.ForStmt, label *flabel) {
	if s.Init != nil {
		b.stmt(s.Init, nil)
	}
	loop := b.newBlock("for.loop", s)
	body := b.newBlock("for.body", s)
	done := b.newBlock("for.done", s)
	cont := loop
	if s.Post != nil {
		cont = b.newBlock("for.post", s)
	}
	if label != nil {
		label.brk, label.cont = done, cont
	}
	b.jump(loop)
	b.cur = loop
	if s.Cond != nil {
		b.cond(s.Cond, body, done)
	} else {
		b.jump(body)
	}
	b.cur = body
	b.targets = &ftargets{tail: b.targets, brk: done, cont: cont}
	b.stmt(s.Body, nil)
	b.targets = b.targets.tail
	if b.cur != nil {
		e := b.jump(cont)
		if cont == loop {
			e.Back = true
		}
	}
	if s.Post != nil {
		b.cur = cont
		b.stmt(s.Post, nil)
		e := b.jump(loop)
		e.Back = true
	}
	b.cur = done
}

func (b *fbuilder) rangeStmt(s *ast.RangeStmt, label *flabel) {
	b.add(s.X)
	loop := b.newBlock("range.loop", s)
	body := b.newBlock("range.body", s)
	done := b.newBlock("range.done", s)
	if label != nil {
		label.brk, label.cont = done, loop
	}
	b.jump(loop)
	b.cur = loop
	b.add(s) // the iteration step; Key/Value are (re)assigned here
	from := b.block()
	et := b.edge(from, body)
	et.Cond, et.Pol = nil, true
	b.edge(from, done)
	b.cur = body
	b.targets = &ftargets{tail: b.targets, brk: done, cont: loop}
	b.stmt(s.Body, nil)
	b.targets = b.targets.tail
	if b.cur != nil {
		e := b.jump(loop)
		e.Back = true
	}
	b.cur = done
}

// ---------------------------------------------------------------------------
// Queries.

// BlockOf returns the block holding the statement or condition node that
// contains n (n itself, or the innermost graph node enclosing it).
func (g *FGraph) BlockOf(n ast.Node) (*FBlock, int) {
	for _, blk := range g.Blocks {
		for i, nd := range blk.Nodes {
			if nd == n {
				return blk, i
			}
		}
	}
	// find enclosing node (innermost)
	var best *FBlock
	bestIdx := -1
	var bestSize token.Pos = 1 << 40
	for _, blk := range g.Blocks {
		for i, nd := range blk.Nodes {
			if rs, ok := nd.(*ast.RangeStmt); ok {
				// the range node stands for the header only
				if !(rs.Pos() <= n.Pos() && n.End() <= rs.Body.Pos()) {
					continue
				}
			}
			if sel, ok := nd.(*ast.SelectStmt); ok {
				if sel != n {
					continue
				}
			}
			if nd.Pos() <= n.Pos() && n.End() <= nd.End() {
				if sz := nd.End() - nd.Pos(); sz < bestSize {
					best, bestIdx, bestSize = blk, i, sz
				}
			}
		}
	}
	return best, bestIdx
}

// Reachable returns the blocks reachable from b (inclusive) following edges
// accepted by keep (nil keeps all).
func (g *FGraph) Reachable(from *FBlock, keep func(*FEdge) bool) map[*FBlock]bool {
	seen := map[*FBlock]bool{from: true}
	work := []*FBlock{from}
	for len(work) > 0 {
		b := work[len(work)-1]
		work = work[:len(work)-1]
		for _, e := range b.Succs {
			if keep != nil && !keep(e) {
				continue
			}
			if !seen[e.To] {
				seen[e.To] = true
				work = append(work, e.To)
			}
		}
	}
	return seen
}

// Live returns blocks reachable from entry.
func (g *FGraph) Live() map[*FBlock]bool { return g.Reachable(g.Entry, nil) }

// Dominators computes, for each live block, the set of its dominators as a
// bitset indexed by block index.
func (g *FGraph) Dominators() map[*FBlock]map[*FBlock]bool {
	live := g.Live()
	return fixDom(g.Blocks, live, g.Entry, func(b *FBlock) []*FBlock {
		var out []*FBlock
		for _, e := range b.Preds {
			if live[e.From] {
				out = append(out, e.From)
			}
		}
		return out
	})
}

// PostDominators computes post-dominators with respect to the given sink
// (normally g.Exit). Blocks that cannot reach the sink are post-dominated by
// everything (vacuous) and are omitted.
func (g *FGraph) PostDominators(sink *FBlock) map[*FBlock]map[*FBlock]bool {
	// blocks that can reach sink
	can := map[*FBlock]bool{sink: true}
	work := []*FBlock{sink}
	for len(work) > 0 {
		b := work[len(work)-1]
		work = work[:len(work)-1]
		for _, e := range b.Preds {
			if !can[e.From] {
				can[e.From] = true
				work = append(work, e.From)
			}
		}
	}
	return fixDom(g.Blocks, can, sink, func(b *FBlock) []*FBlock {
		var out []*FBlock
		for _, e := range b.Succs {
			if can[e.To] {
				out = append(out, e.To)
			}
		}
		return out
	})
}

func fixDom(blocks []*FBlock, in map[*FBlock]bool, root *FBlock, preds func(*FBlock) []*FBlock) map[*FBlock]map[*FBlock]bool {
	dom := map[*FBlock]map[*FBlock]bool{}
	all := map[*FBlock]bool{}
	for _, b := range blocks {
		if in[b] {
			all[b] = true
		}
	}
	for b := range all {
		if b == root {
			dom[b] = map[*FBlock]bool{b: true}
		} else {
			m := map[*FBlock]bool{}
			for k := range all {
				m[k] = true
			}
			dom[b] = m
		}
	}
	for changed := true; changed; {
		changed = false
		for _, b := range blocks {
			if !all[b] || b == root {
				continue
			}
			var nw map[*FBlock]bool
			for _, p := range preds(b) {
				if nw == nil {
					nw = map[*FBlock]bool{}
					for k := range dom[p] {
						nw[k] = true
					}
				} else {
					for k := range nw {
						if !dom[p][k] {
							delete(nw, k)
						}
					}
				}
			}
			if nw == nil {
				nw = map[*FBlock]bool{}
			}
			nw[b] = true
			if len(nw) != len(dom[b]) {
				dom[b] = nw
				changed = true
			}
		}
	}
	return dom
}

// MustPass reports whether every path from (blk, after node index idx) to
// sink passes through a node satisfying hit, ignoring edges for which skip
// returns true. It returns a witness block on failure (where the sink is
// reached without a hit).
func (g *FGraph) MustPass(blk *FBlock, idx int, sink *FBlock, hit func(ast.Node) bool, skip func(*FEdge) bool) (bool, *FBlock) {
	// within the start block
	for _, n := range blk.Nodes[idx+1:] {
		if hit(n) {
			return true, nil
		}
	}
	seen := map[*FBlock]bool{}
	var work []*FBlock
	push := func(b *FBlock) {
		if !seen[b] {
			seen[b] = true
			work = append(work, b)
		}
	}
	for _, e := range blk.Succs {
		if skip != nil && skip(e) {
			continue
		}
		push(e.To)
	}
	for len(work) > 0 {
		b := work[len(work)-1]
		work = work[:len(work)-1]
		if b == sink {
			return false, b
		}
		stop := false
		for _, n := range b.Nodes {
			if hit(n) {
				stop = true
				break
			}
		}
		if stop {
			continue
		}
		for _, e := range b.Succs {
			if skip != nil && skip(e) {
				continue
			}
			push(e.To)
		}
	}
	return true, nil
}

// inspectNoLit walks n without descending into function literals.
func inspectNoLit(n ast.Node, f func(ast.Node) bool) {
	ast.Inspect(n, func(x ast.Node) bool {
		if _, ok := x.(*ast.FuncLit); ok && x != n {
			return false
		}
		return f(x)
	})
}

// nodeCalls returns the call expressions evaluated by a graph node (without
// function literal bodies; for a RangeStmt node only its header; defers and
// go statements are included with their call).
func nodeCalls(n ast.Node) []*ast.CallExpr {
	var out []*ast.CallExpr
	root := n
	if rs, ok := n.(*ast.RangeStmt); ok {
		_ = rs
		return nil // X was added separately; key/value are plain
	}
	if _, ok := n.(*ast.SelectStmt); ok {
		return nil
	}
	inspectNoLit(root, func(x ast.Node) bool {
		if c, ok := x.(*ast.CallExpr); ok {
			out = append(out, c)
		}
		return true
	})
	return out
}
