package main

import (
	"fmt"
	"go/ast"
	"go/token"
	"go/types"
	"sort"
	"strings"
)

// R15d: reflect operations in the decoder are guarded.
//
// A forward dataflow over the decomposed-condition CFG tracks, per local
// reflect.Value variable: the set of kinds it may have (from v.Kind()
// comparisons and switch cases), whether it is settable/addressable, what its
// type was compared equal to, and which `E.AssignableTo(v.Type())` tests are
// known true. Facts about a variable die when it is reassigned.

type rfact struct {
	kinds  map[types.Object]string // "|"-joined sorted kind names; absent = unknown
	assign map[string]bool         // "<src expr> => <dst obj id>"
	canSet map[types.Object]bool
	addr   map[types.Object]bool
	alias  map[types.Object]types.Object // t := v.Type()
	typeIs map[types.Object]string
	param  map[types.Object]bool
}

func newRFact() rfact {
	return rfact{kinds: map[types.Object]string{}, assign: map[string]bool{}, canSet: map[types.Object]bool{},
		addr: map[types.Object]bool{}, alias: map[types.Object]types.Object{}, typeIs: map[types.Object]string{}, param: map[types.Object]bool{}}
}

func (f rfact) clone() rfact {
	g := newRFact()
	for k, v := range f.kinds {
		g.kinds[k] = v
	}
	for k, v := range f.assign {
		g.assign[k] = v
	}
	for k, v := range f.canSet {
		g.canSet[k] = v
	}
	for k, v := range f.addr {
		g.addr[k] = v
	}
	for k, v := range f.alias {
		g.alias[k] = v
	}
	for k, v := range f.typeIs {
		g.typeIs[k] = v
	}
	for k, v := range f.param {
		g.param[k] = v
	}
	return g
}

func kindUnion(a, b string) string {
	set := map[string]bool{}
	for _, k := range strings.Split(a, "|") {
		set[k] = true
	}
	for _, k := range strings.Split(b, "|") {
		set[k] = true
	}
	return strings.Join(sortedKeys(set), "|")
}

func rjoin(a, b rfact) rfact {
	g := newRFact()
	for k, v := range a.kinds {
		if w, ok := b.kinds[k]; ok {
			g.kinds[k] = kindUnion(v, w)
		}
	}
	for k := range a.assign {
		if b.assign[k] {
			g.assign[k] = true
		}
	}
	for k := range a.canSet {
		if b.canSet[k] {
			g.canSet[k] = true
		}
	}
	for k := range a.addr {
		if b.addr[k] {
			g.addr[k] = true
		}
	}
	for k, v := range a.alias {
		if b.alias[k] == v {
			g.alias[k] = v
		}
	}
	for k, v := range a.typeIs {
		if b.typeIs[k] == v {
			g.typeIs[k] = v
		}
	}
	for k := range a.param {
		if b.param[k] {
			g.param[k] = true
		}
	}
	return g
}

func requal(a, b rfact) bool {
	if len(a.kinds) != len(b.kinds) || len(a.assign) != len(b.assign) || len(a.canSet) != len(b.canSet) ||
		len(a.addr) != len(b.addr) || len(a.alias) != len(b.alias) || len(a.typeIs) != len(b.typeIs) || len(a.param) != len(b.param) {
		return false
	}
	for k, v := range a.kinds {
		if b.kinds[k] != v {
			return false
		}
	}
	for k := range a.assign {
		if !b.assign[k] {
			return false
		}
	}
	for k := range a.canSet {
		if !b.canSet[k] {
			return false
		}
	}
	for k := range a.addr {
		if !b.addr[k] {
			return false
		}
	}
	for k, v := range a.alias {
		if b.alias[k] != v {
			return false
		}
	}
	for k, v := range a.typeIs {
		if b.typeIs[k] != v {
			return false
		}
	}
	for k := range a.param {
		if !b.param[k] {
			return false
		}
	}
	return true
}

func (f rfact) kill(o types.Object) rfact {
	g := f.clone()
	delete(g.kinds, o)
	delete(g.canSet, o)
	delete(g.addr, o)
	delete(g.typeIs, o)
	delete(g.param, o)
	delete(g.alias, o)
	for k, v := range g.alias {
		if v == o {
			delete(g.alias, k)
		}
	}
	id := objID(o)
	for k := range g.assign {
		if strings.HasSuffix(k, "=> "+id) || strings.Contains(k, o.Name()) {
			delete(g.assign, k)
		}
	}
	return g
}

func objID(o types.Object) string { return fmt.Sprintf("%s@%d", o.Name(), o.Pos()) }

type reflectCtx struct {
	info  *types.Info
	body  ast.Node
	files []*ast.File
}

func (rc reflectCtx) isReflectMethod(call *ast.CallExpr, recvType string) (*ast.SelectorExpr, string) {
	se, ok := ast.Unparen(call.Fun).(*ast.SelectorExpr)
	if !ok {
		return nil, ""
	}
	fn, ok := rc.info.Uses[se.Sel].(*types.Func)
	if !ok || fn.Pkg() == nil || fn.Pkg().Path() != "reflect" {
		return nil, ""
	}
	sig := fn.Type().(*types.Signature)
	if sig.Recv() == nil {
		return nil, ""
	}
	if typeName(sig.Recv().Type()) != recvType {
		return nil, ""
	}
	return se, fn.Name()
}

func (rc reflectCtx) identObj(e ast.Expr) types.Object {
	if id, ok := ast.Unparen(e).(*ast.Ident); ok {
		if o := rc.info.Uses[id]; o != nil {
			return o
		}
		return rc.info.Defs[id]
	}
	return nil
}

// valueOfTypeExpr: if e denotes the reflect.Type of a tracked value variable
// (`v.Type()` or an alias of it), return that variable.
func (rc reflectCtx) valueOfTypeExpr(f rfact, e ast.Expr) types.Object {
	e = ast.Unparen(e)
	if call, ok := e.(*ast.CallExpr); ok {
		if se, m := rc.isReflectMethod(call, "Value"); se != nil && m == "Type" {
			return rc.identObj(se.X)
		}
		return nil
	}
	if o := rc.identObj(e); o != nil {
		return f.alias[o]
	}
	return nil
}

// kindTest recognises v.Kind() == reflect.K (or !=).
func (rc reflectCtx) kindTest(cond ast.Expr) (types.Object, string, bool, bool) {
	be, ok := ast.Unparen(cond).(*ast.BinaryExpr)
	if !ok || (be.Op != token.EQL && be.Op != token.NEQ) {
		return nil, "", false, false
	}
	x, y := be.X, be.Y
	if rc.kindCallObj(x) == nil {
		x, y = y, x
	}
	o := rc.kindCallObj(x)
	if o == nil {
		return nil, "", false, false
	}
	k := rc.kindConst(y)
	if k == "" {
		return nil, "", false, false
	}
	return o, k, be.Op == token.EQL, true
}

func (rc reflectCtx) kindCallObj(e ast.Expr) types.Object {
	call, ok := ast.Unparen(e).(*ast.CallExpr)
	if !ok {
		return nil
	}
	if se, m := rc.isReflectMethod(call, "Value"); se != nil && m == "Kind" {
		return rc.identObj(se.X)
	}
	return nil
}

func (rc reflectCtx) kindConst(e ast.Expr) string {
	se, ok := ast.Unparen(e).(*ast.SelectorExpr)
	if !ok {
		return ""
	}
	c, ok := rc.info.Uses[se.Sel].(*types.Const)
	if !ok || c.Pkg() == nil || c.Pkg().Path() != "reflect" {
		return ""
	}
	return c.Name()
}

func kindRemove(set, k string) string {
	var out []string
	for _, x := range strings.Split(set, "|") {
		if x != k {
			out = append(out, x)
		}
	}
	return strings.Join(out, "|")
}

func (rc reflectCtx) edge(f rfact, e *FEdge) rfact {
	if e.Cond == nil {
		return f
	}
	// switch v.Kind() { case reflect.K: }
	if e.Tag != nil {
		if o := rc.kindCallObj(e.Tag); o != nil {
			if k := rc.kindConst(e.Cond); k != "" {
				g := f.clone()
				if e.Pol {
					g.kinds[o] = k
				} else if cur, ok := g.kinds[o]; ok {
					g.kinds[o] = kindRemove(cur, k)
				}
				return g
			}
		}
		return f
	}
	if e.TypeCase {
		return f
	}
	if o, k, eq, ok := rc.kindTest(e.Cond); ok {
		g := f.clone()
		if eq == e.Pol {
			g.kinds[o] = k
		} else if cur, ok := g.kinds[o]; ok {
			g.kinds[o] = kindRemove(cur, k)
		}
		return g
	}
	if call, ok := ast.Unparen(e.Cond).(*ast.CallExpr); ok && e.Pol {
		if se, m := rc.isReflectMethod(call, "Type"); se != nil && m == "AssignableTo" && len(call.Args) == 1 {
			if dst := rc.valueOfTypeExpr(f, call.Args[0]); dst != nil {
				g := f.clone()
				g.assign[exprString(se.X)+" => "+objID(dst)] = true
				return g
			}
		}
		if se, m := rc.isReflectMethod(call, "Value"); se != nil && m == "CanSet" {
			if o := rc.identObj(se.X); o != nil {
				g := f.clone()
				g.canSet[o] = true
				g.addr[o] = true
				return g
			}
		}
	}
	// v.Type() == globalVar
	if be, ok := ast.Unparen(e.Cond).(*ast.BinaryExpr); ok && (be.Op == token.EQL || be.Op == token.NEQ) {
		if (be.Op == token.EQL) == e.Pol {
			for _, pair := range [][2]ast.Expr{{be.X, be.Y}, {be.Y, be.X}} {
				if v := rc.valueOfTypeExpr(f, pair[0]); v != nil {
					if g, ok := rc.identObj(pair[1]).(*types.Var); ok && g.Parent() == g.Pkg().Scope() {
						h := f.clone()
						h.typeIs[v] = g.Name()
						return h
					}
				}
			}
		}
	}
	return f
}

func (rc reflectCtx) node(f rfact, n ast.Node) rfact {
	assign := func(lhs []ast.Expr, rhs []ast.Expr) {
		for _, l := range lhs {
			if o := rc.identObj(l); o != nil {
				f = f.kill(o)
			}
		}
		if len(lhs) == 1 && len(rhs) == 1 {
			o := rc.identObj(lhs[0])
			if o == nil {
				return
			}
			r := ast.Unparen(rhs[0])
			if call, ok := r.(*ast.CallExpr); ok {
				if se, m := rc.isReflectMethod(call, "Value"); se != nil {
					switch m {
					case "Type":
						if v := rc.identObj(se.X); v != nil && v != o {
							f = f.clone()
							f.alias[o] = v
						}
					case "Elem":
						// reflect.New(T).Elem() / reflect.ValueOf(ptr).Elem() are addressable
						if inner, ok := ast.Unparen(se.X).(*ast.CallExpr); ok {
							if fn := calleeOf(rc.info, inner); fn != nil && fn.Pkg() != nil && fn.Pkg().Path() == "reflect" {
								if fn.Name() == "New" {
									f = f.clone()
									f.addr[o] = true
								}
								if fn.Name() == "ValueOf" && len(inner.Args) == 1 {
									if _, isPtr := rc.info.TypeOf(inner.Args[0]).Underlying().(*types.Pointer); isPtr {
										f = f.clone()
										f.addr[o] = true
									}
								}
							}
						}
					}
				}
			}
		}
	}
	switch x := n.(type) {
	case *ast.AssignStmt:
		assign(x.Lhs, x.Rhs)
	case *ast.DeclStmt:
		if gd, ok := x.Decl.(*ast.GenDecl); ok {
			for _, s := range gd.Specs {
				if vs, ok := s.(*ast.ValueSpec); ok {
					var lhs []ast.Expr
					for _, nm := range vs.Names {
						lhs = append(lhs, nm)
					}
					assign(lhs, vs.Values)
				}
			}
		}
	case *ast.RangeStmt:
		var lhs []ast.Expr
		if x.Key != nil {
			lhs = append(lhs, x.Key)
		}
		if x.Value != nil {
			lhs = append(lhs, x.Value)
		}
		assign(lhs, nil)
	case *ast.IncDecStmt:
		assign([]ast.Expr{x.X}, nil)
	}
	return f
}

var kindReq = map[string][]string{
	"SetString":    {"String"},
	"SetUint":      {"Uint", "Uint8", "Uint16", "Uint32", "Uint64", "Uintptr"},
	"OverflowUint": {"Uint", "Uint8", "Uint16", "Uint32", "Uint64", "Uintptr"},
	"SetInt":       {"Int", "Int8", "Int16", "Int32", "Int64"},
	"OverflowInt":  {"Int", "Int8", "Int16", "Int32", "Int64"},
	"SetBool":      {"Bool"},
	"SetFloat":     {"Float32", "Float64"},
	"Elem":         {"Pointer", "Interface"},
	"IsNil":        {"Pointer", "Interface", "Slice", "Map", "Chan", "Func", "UnsafePointer"},
	"FieldByName":  {"Struct"},
	"Field":        {"Struct"},
	"NumField":     {"Struct"},
	"Index":        {"Slice", "Array", "String"},
	"Len":          {"Slice", "Array", "String", "Map", "Chan"},
	"SetLen":       {"Slice"},
	"MapIndex":     {"Map"},
	"SetMapIndex":  {"Map"},
	"SetBytes":     {"Slice"},
	"Bytes":        {"Slice", "Array"},
	"Uint":         {"Uint", "Uint8", "Uint16", "Uint32", "Uint64", "Uintptr"},
	"Int":          {"Int", "Int8", "Int16", "Int32", "Int64"},
	"Bool":         {"Bool"},
	"Float":        {"Float32", "Float64"},
}

var typeElemKinds = []string{"Pointer", "Slice", "Array", "Map", "Chan"}

func kindsWithin(have string, allowed []string) bool {
	if have == "" {
		return true // no feasible kind: dead path
	}
	for _, k := range strings.Split(have, "|") {
		ok := false
		for _, a := range allowed {
			if a == k {
				ok = true
			}
		}
		if !ok {
			return false
		}
	}
	return true
}

// analyseReflect runs the dataflow over one function and reports, for each
// reflect call on a tracked value, the obligation verdict through emit.
// It returns, for calls to the functions in `callees`, the fact before each
// call (used to move parameter obligations to call sites).
func analyseReflect(p *Prog, r *Result, info *types.Info, fd *ast.FuncDecl, fname string, paramAssume func(f *rfact, params []types.Object)) (*flowResult[rfact], reflectCtx) {
	rc := reflectCtx{info: info, body: fd.Body, files: p.Pkg("syntax/typedjson").Syntax}
	g := NewFGraph(info, fd.Body, nil)
	init := newRFact()
	var params []types.Object
	for _, fl := range fd.Type.Params.List {
		for _, nm := range fl.Names {
			o := info.Defs[nm]
			params = append(params, o)
			init.param[o] = true
		}
	}
	if paramAssume != nil {
		paramAssume(&init, params)
	}
	res := runForward(g, flowSpec[rfact]{Init: init, Join: rjoin, Equal: requal, Node: rc.node, Edge: rc.edge})

	live := g.Live()
	for _, b := range g.Blocks {
		if !live[b] {
			continue
		}
		for i, n := range b.Nodes {
			f, ok := res.At(b, i)
			if !ok {
				continue
			}
			for _, call := range nodeCalls(n) {
				rc.checkCall(p, r, f, call, fname)
			}
		}
	}
	return res, rc
}

func (rc reflectCtx) checkCall(p *Prog, r *Result, f rfact, call *ast.CallExpr, fname string) {
	// reflect.Append(s, ...)
	if fn := calleeOf(rc.info, call); fn != nil && fn.Pkg() != nil && fn.Pkg().Path() == "reflect" && fn.Type().(*types.Signature).Recv() == nil {
		if fn.Name() == "Append" && len(call.Args) >= 1 {
			if o := rc.identObj(call.Args[0]); o != nil {
				have, known := f.kinds[o]
				key := fmt.Sprintf("typedjson.%s#reflect.Append(%s)", fname, o.Name())
				r.Check(known && kindsWithin(have, []string{"Slice"}), "R15d", key, call.Pos(),
					"kind of "+o.Name()+" is known to be Slice here", fmt.Sprintf("reflect.Append panics unless %s is a slice; known kinds here: %q", o.Name(), have))
				// elements must be values of the slice's element type
				for _, a := range call.Args[1:] {
					okElem := false
					if eo := rc.identObj(a); eo != nil {
						okElem = rc.isNewElemOf(eo, o, call)
					}
					r.Check(okElem, "R15d", key+"/elem "+exprString(a), call.Pos(), "element was created as reflect.New("+o.Name()+".Type().Elem()).Elem()",
						"appended element is not known to have the slice's element type")
				}
			}
		}
		return
	}
	if se, m := rc.isReflectMethod(call, "Type"); se != nil && m == "Elem" {
		if v := rc.valueOfTypeExpr(f, se.X); v != nil {
			have, known := f.kinds[v]
			key := fmt.Sprintf("typedjson.%s#%s.Type().Elem", fname, v.Name())
			r.Check(known && kindsWithin(have, typeElemKinds), "R15d", key, call.Pos(), "kind of "+v.Name()+" known to be "+have,
				fmt.Sprintf("Type.Elem panics unless the kind is one of %v; known kinds of %s here: %q", typeElemKinds, v.Name(), have))
		}
		return
	}
	se, m := rc.isReflectMethod(call, "Value")
	if se == nil {
		return
	}
	o := rc.identObj(se.X)
	if o == nil {
		return // method on a temporary (e.g. reflect.New(T).Elem()): not a value of untrusted shape
	}
	key := fmt.Sprintf("typedjson.%s#%s.%s", fname, o.Name(), m)
	if req, ok := kindReq[m]; ok {
		have, known := f.kinds[o]
		r.Check(known && kindsWithin(have, req), "R15d", key, call.Pos(), "kind of "+o.Name()+" known to be "+have,
			fmt.Sprintf("%s panics unless the kind is one of %v; known kinds of %s here: %q (unknown means no dominating Kind test since its last assignment)", m, req, o.Name(), have))
		return
	}
	switch m {
	case "Set":
		if len(call.Args) != 1 {
			return
		}
		ok, how := rc.setIsSafe(f, o, call.Args[0])
		r.Check(ok, "R15d", key+"("+shortExpr(call.Args[0])+")", call.Pos(), how,
			"Value.Set panics if the argument's type is not assignable to "+o.Name()+"'s type; no dominating AssignableTo test or constructive reason found")
	case "Addr":
		ok := f.addr[o] || f.canSet[o] || f.param[o]
		how := "value is addressable: "
		switch {
		case f.param[o]:
			how += "unmodified parameter (obligation moved to every call site)"
		case f.canSet[o]:
			how += "CanSet() tested"
		default:
			how += "created by reflect.New(..).Elem()"
		}
		r.Check(ok, "R15d", key, call.Pos(), how, "Value.Addr panics on a non-addressable value; nothing establishes addressability here")
	}
}

func shortExpr(e ast.Expr) string {
	s := exprString(e)
	if len(s) > 40 {
		s = s[:40] + "…"
	}
	return s
}

// isNewElemOf: eo has a single definition in the analysed body, of the form
// reflect.New(slice.Type().Elem()).Elem(), and is never reassigned.
func (rc reflectCtx) isNewElemOf(eo, slice types.Object, at ast.Node) bool {
	var def ast.Expr
	writes := 0
	ast.Inspect(rc.body, func(n ast.Node) bool {
		as, ok := n.(*ast.AssignStmt)
		if !ok {
			return true
		}
		for i, l := range as.Lhs {
			id, ok := ast.Unparen(l).(*ast.Ident)
			if !ok {
				continue
			}
			if rc.info.Defs[id] == eo || rc.info.Uses[id] == eo {
				writes++
				if len(as.Lhs) == len(as.Rhs) {
					def = as.Rhs[i]
				}
			}
		}
		return true
	})
	if def == nil || writes != 1 {
		return false
	}
	outer, ok := ast.Unparen(def).(*ast.CallExpr)
	if !ok {
		return false
	}
	se, m := rc.isReflectMethod(outer, "Value")
	if se == nil || m != "Elem" {
		return false
	}
	inner, ok := ast.Unparen(se.X).(*ast.CallExpr)
	if !ok {
		return false
	}
	fn := calleeOf(rc.info, inner)
	if fn == nil || fn.Name() != "New" || fn.Pkg() == nil || fn.Pkg().Path() != "reflect" || len(inner.Args) != 1 {
		return false
	}
	tcall, ok := ast.Unparen(inner.Args[0]).(*ast.CallExpr)
	if !ok {
		return false
	}
	tse, tm := rc.isReflectMethod(tcall, "Type")
	if tse == nil || tm != "Elem" {
		return false
	}
	vcall, ok := ast.Unparen(tse.X).(*ast.CallExpr)
	if !ok {
		return false
	}
	vse, vm := rc.isReflectMethod(vcall, "Value")
	return vse != nil && vm == "Type" && rc.identObj(vse.X) == slice
}

func (rc reflectCtx) setIsSafe(f rfact, dst types.Object, arg ast.Expr) (bool, string) {
	arg = ast.Unparen(arg)
	id := objID(dst)
	if call, ok := arg.(*ast.CallExpr); ok {
		fn := calleeOf(rc.info, call)
		if fn != nil && fn.Pkg() != nil && fn.Pkg().Path() == "reflect" {
			switch fn.Name() {
			case "New":
				if len(call.Args) == 1 {
					// reflect.New(N): type *N; need PointerTo(N).AssignableTo(dst.Type())
					if f.assign["reflect.PointerTo("+exprString(call.Args[0])+") => "+id] {
						return true, "dominated by reflect.PointerTo(" + exprString(call.Args[0]) + ").AssignableTo(" + dst.Name() + ".Type())"
					}
					// reflect.New(T.Elem()) where T is dst's type and dst is a pointer: exact type
					if ec, ok := ast.Unparen(call.Args[0]).(*ast.CallExpr); ok {
						if se, m := rc.isReflectMethod(ec, "Type"); se != nil && m == "Elem" {
							if rc.valueOfTypeExpr(f, se.X) == dst {
								if have, known := f.kinds[dst]; known && kindsWithin(have, []string{"Pointer"}) {
									return true, "reflect.New(T.Elem()) where T is the pointer type of " + dst.Name()
								}
							}
						}
					}
				}
			case "Append":
				if len(call.Args) >= 1 && rc.identObj(call.Args[0]) == dst {
					return true, "reflect.Append of the same slice value"
				}
			case "ValueOf":
				// typed constant destination: dst.Type() == <global> tested
				if t, ok := f.typeIs[dst]; ok && len(call.Args) == 1 {
					return rc.valueOfMatchesGlobal(call.Args[0], t), "dst.Type() == " + t + " tested and the argument has that static type"
				}
				if f.param[dst] && len(call.Args) == 1 {
					return true, "unmodified parameter: obligation moved to every call site (type identity test there)"
				}
			}
		}
		return false, ""
	}
	if ao := rc.identObj(arg); ao != nil {
		if f.assign[ao.Name()+".Type() => "+id] {
			return true, "dominated by " + ao.Name() + ".Type().AssignableTo(" + dst.Name() + ".Type())"
		}
	}
	return false, ""
}

// valueOfMatchesGlobal: the static type of arg equals the type argument of
// the reflect.TypeFor[...]() call initialising the package variable global.
func (rc reflectCtx) valueOfMatchesGlobal(arg ast.Expr, global string) bool {
	at := rc.info.TypeOf(arg)
	if at == nil {
		return false
	}
	match := false
	for _, f := range rc.files {
		for _, d := range f.Decls {
			gd, ok := d.(*ast.GenDecl)
			if !ok || gd.Tok != token.VAR {
				continue
			}
			for _, s := range gd.Specs {
				vs := s.(*ast.ValueSpec)
				for i, nm := range vs.Names {
					if nm.Name != global || i >= len(vs.Values) {
						continue
					}
					if call, ok := ast.Unparen(vs.Values[i]).(*ast.CallExpr); ok {
						if ix, ok := ast.Unparen(call.Fun).(*ast.IndexExpr); ok {
							if fn := calleeOfExpr(rc.info, ix.X); fn != nil && fn.Name() == "TypeFor" {
								if t := rc.info.TypeOf(ix.Index); t != nil && types.Identical(t, at) {
									match = true
								}
							}
						}
					}
				}
			}
		}
	}
	return match
}

func checkDecodeGuards(p *Prog, r *Result, info *types.Info, decFD *ast.FuncDecl) {
	// decodeValue's parameter val is addressable by induction: discharged at call sites below.
	res, rc := analyseReflect(p, r, info, decFD, "decodeValue", nil)

	// textUnmarshaler(val): Addr on its parameter; call sites must pass an addressable value.
	tuFD := p.FuncDecl("syntax/typedjson", "textUnmarshaler")
	if tuFD != nil {
		analyseReflect(p, r, info, tuFD, "textUnmarshaler", nil)
	}
	pkg := p.Pkg("syntax/typedjson")
	var decObj, tuObj *types.Func
	if o, ok := info.Defs[decFD.Name].(*types.Func); ok {
		decObj = o // a function, or the method a refactor turned it into
	}
	if tuFD != nil {
		if o, ok := info.Defs[tuFD.Name].(*types.Func); ok {
			tuObj = o
		}
	}
	_ = pkg

	// call sites of decodeValue and textUnmarshaler in the whole package
	for _, fd := range p.AllFuncDecls("syntax/typedjson") {
		var fres *flowResult[rfact]
		if fd == decFD {
			fres = res
		} else {
			g := NewFGraph(info, fd.Body, nil)
			init := newRFact()
			for _, fl := range fd.Type.Params.List {
				for _, nm := range fl.Names {
					init.param[info.Defs[nm]] = true
				}
			}
			fres = runForward(g, flowSpec[rfact]{Init: init, Join: rjoin, Equal: requal, Node: rc.node, Edge: rc.edge})
		}
		fname := fd.Name.Name
		for _, b := range fres.g.Blocks {
			for i, n := range b.Nodes {
				for _, call := range nodeCalls(n) {
					callee := calleeOf(info, call)
					if callee == nil || (callee != decObj && callee != tuObj) || len(call.Args) < 1 {
						continue
					}
					f, ok := fres.At(b, i)
					if !ok {
						continue
					}
					arg := ast.Unparen(call.Args[0])
					key := fmt.Sprintf("typedjson.%s#call %s(%s)", fname, callee.Name(), shortExpr(arg))
					good, how := false, ""
					if o := rc.identObj(arg); o != nil {
						switch {
						case f.canSet[o]:
							good, how = true, "argument passed CanSet()"
						case f.addr[o]:
							good, how = true, "argument created by reflect.New(..).Elem()"
						case f.param[o] && (fd == decFD || fd == tuFD):
							good, how = true, "unmodified addressable parameter (induction)"
						}
					} else if c, ok := arg.(*ast.CallExpr); ok {
						if se, m := rc.isReflectMethod(c, "Value"); se != nil && m == "Elem" {
							if inner, ok := ast.Unparen(se.X).(*ast.CallExpr); ok {
								if fn := calleeOf(info, inner); fn != nil && fn.Pkg() != nil && fn.Pkg().Path() == "reflect" && (fn.Name() == "ValueOf" || fn.Name() == "New") {
									ptr := fn.Name() == "New"
									if !ptr && len(inner.Args) == 1 {
										_, ptr = info.TypeOf(inner.Args[0]).Underlying().(*types.Pointer)
									}
									if ptr {
										good, how = true, "reflect.ValueOf(pointer).Elem() is addressable"
									}
								}
							}
						}
					}
					r.Check(good, "R15d", key, call.Pos(), how, "the value passed may be non-addressable: textUnmarshaler's val.Addr() would panic")
				}
			}
		}
	}
}

// checkDecodePosCaller: decodePos sets a syntax.Pos into its parameter; each
// call site must have established that the destination's type is Pos.
func checkDecodePosCaller(p *Prog, r *Result, info *types.Info, decFD, posFD *ast.FuncDecl, si *syntaxInfo) {
	analyseReflect(p, r, info, posFD, "decodePos", nil)
	pkg := p.Pkg("syntax/typedjson")
	posObj := lookupFunc(pkg, "decodePos")
	rc := reflectCtx{info: info, files: pkg.Syntax}
	n := 0
	for _, fd := range p.AllFuncDecls("syntax/typedjson") {
		g := NewFGraph(info, fd.Body, nil)
		init := newRFact()
		fres := runForward(g, flowSpec[rfact]{Init: init, Join: rjoin, Equal: requal, Node: rc.node, Edge: rc.edge})
		for _, b := range g.Blocks {
			for i, nd := range b.Nodes {
				for _, call := range nodeCalls(nd) {
					if calleeOf(info, call) != posObj || len(call.Args) < 1 {
						continue
					}
					n++
					f, _ := fres.At(b, i)
					o := rc.identObj(call.Args[0])
					key := fmt.Sprintf("typedjson.%s#call decodePos(%s)", fd.Name.Name, shortExpr(call.Args[0]))
					ok := o != nil && f.typeIs[o] == "posType" && (f.canSet[o] || f.addr[o])
					r.Check(ok, "R15d", key, call.Pos(), "destination tested settable and of type posType before the call",
						"decodePos stores a syntax.Pos with Value.Set; the destination is not known to be a settable value of type Pos here")
				}
			}
		}
	}
	if n == 0 {
		r.Notef("R15d: decodePos has no call sites")
	}
}

// ctlReplaceAnywhere replaces the unique occurrence of old in the file text.
func ctlReplaceAnywhere(old, new string) func([]byte, *token.FileSet, *ast.File) ([]byte, error) {
	return func(src []byte, fset *token.FileSet, f *ast.File) ([]byte, error) {
		s := string(src)
		if c := strings.Count(s, old); c != 1 {
			return nil, fmt.Errorf("%q occurs %d times", old, c)
		}
		return []byte(strings.Replace(s, old, new, 1)), nil
	}
}

var _ = sort.Strings
