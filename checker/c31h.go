package main

import (
	"go/ast"
	"go/types"
)

// R31h: os.File.Fd puts the descriptor into blocking mode, after which SetReadDeadline — the only thing that makes a
// blocked read of the shell's stdin return when the context is cancelled (R31d) — has no effect. So nothing may call
// Fd on a value that can be the runner's stdin unless it first established that it is a character device (terminals
// are the documented exception), and handing the runner's stdin to os/exec, which calls Fd on every inherited file, is
// reported as well.
func checkStdinFd(p *Prog, r *Result, rule string) {
	pkg := p.Pkg("interp")
	info := pkg.TypesInfo
	runnerT := lookupType(pkg, "Runner")
	hcT := lookupType(pkg, "HandlerContext")
	isStdinField := func(e ast.Expr) bool {
		sel, ok := ast.Unparen(e).(*ast.SelectorExpr)
		if !ok {
			return false
		}
		fv := selectorField(info, sel)
		if fv == nil {
			return false
		}
		owner := namedOf(derefType(info.TypeOf(sel.X)))
		return (owner == runnerT && fv.Name() == "stdin") || (owner == hcT && fv.Name() == "Stdin")
	}
	isStdinAlias := func(t types.Type) bool {
		a, ok := t.(*types.Alias)
		return ok && a.Obj().Name() == "stdinFile"
	}
	for _, fd := range p.AllFuncDecls("interp") {
		// objects that may hold the stdin
		may := map[types.Object]bool{}
		if fd.Type.Params != nil {
			for _, f := range fd.Type.Params.List {
				for _, n := range f.Names {
					if o := info.Defs[n]; o != nil && isStdinAlias(o.Type()) {
						may[o] = true
					}
				}
			}
		}
		for changed := true; changed; {
			changed = false
			ast.Inspect(fd.Body, func(n ast.Node) bool {
				as, ok := n.(*ast.AssignStmt)
				if !ok {
					return true
				}
				if len(as.Lhs) == 2 && len(as.Rhs) == 1 { // v, ok := x.(T)
					if ta, isTA := ast.Unparen(as.Rhs[0]).(*ast.TypeAssertExpr); isTA {
						if id, isID := as.Lhs[0].(*ast.Ident); isID {
							if o := info.ObjectOf(id); o != nil && !may[o] {
								src := isStdinField(ta.X)
								if rid, ok := ast.Unparen(ta.X).(*ast.Ident); ok && may[info.ObjectOf(rid)] {
									src = true
								}
								if src {
									may[o] = true
									changed = true
								}
							}
						}
					}
					return true
				}
				if len(as.Lhs) != len(as.Rhs) {
					return true
				}
				for i, l := range as.Lhs {
					id, ok := l.(*ast.Ident)
					if !ok {
						continue
					}
					o := info.ObjectOf(id)
					if o == nil || may[o] {
						continue
					}
					rh := ast.Unparen(as.Rhs[i])
					if ta, ok := rh.(*ast.TypeAssertExpr); ok {
						rh = ast.Unparen(ta.X)
					}
					src := isStdinField(rh)
					if rid, ok := rh.(*ast.Ident); ok && may[info.ObjectOf(rid)] {
						src = true
					}
					if src {
						may[o] = true
						changed = true
					}
				}
				return true
			})
		}
		isStdin := func(e ast.Expr) bool {
			e = ast.Unparen(e)
			if isStdinField(e) {
				return true
			}
			id, ok := e.(*ast.Ident)
			return ok && may[info.ObjectOf(id)]
		}
		// character-device guards: `if … ModeCharDevice == 0 { return }` before, or an enclosing `if … ModeCharDevice != 0`
		var guards []*ast.IfStmt
		ast.Inspect(fd.Body, func(n ast.Node) bool {
			if is, ok := n.(*ast.IfStmt); ok {
				mentions := false
				ast.Inspect(is.Cond, func(m ast.Node) bool {
					if sel, ok := m.(*ast.SelectorExpr); ok && sel.Sel.Name == "ModeCharDevice" {
						mentions = true
					}
					return true
				})
				if mentions {
					guards = append(guards, is)
				}
			}
			return true
		})
		guarded := func(call ast.Node) bool {
			for _, g := range guards {
				if g.Body.Pos() <= call.Pos() && call.End() <= g.Body.End() {
					return true // inside the body of a test on the mode
				}
				if g.End() <= call.Pos() && blockEndsInReturn(g.Body) {
					return true // after an early return on the mode
				}
			}
			return false
		}
		ast.Inspect(fd.Body, func(n ast.Node) bool {
			switch x := n.(type) {
			case *ast.CallExpr:
				sel, ok := ast.Unparen(x.Fun).(*ast.SelectorExpr)
				if !ok || sel.Sel.Name != "Fd" || len(x.Args) != 0 {
					return true
				}
				if !isStdin(sel.X) {
					return true
				}
				r.Check(guarded(x), rule, funcKey("interp", fd)+"#"+exprString(sel.X)+".Fd()", x.Pos(),
					"only reached once the file is known to be a character device",
					"Fd() is called on a value that can be the runner's stdin without first checking that it is a character device: the descriptor goes into blocking mode and a later read of stdin can no longer be interrupted by cancelling the context")
			case *ast.AssignStmt:
				for i, l := range x.Lhs {
					sel, ok := ast.Unparen(l).(*ast.SelectorExpr)
					if !ok || sel.Sel.Name != "Stdin" || i >= len(x.Rhs) {
						continue
					}
					if t := namedOf(derefType(info.TypeOf(sel.X))); t == nil || t.Obj().Pkg() == nil || t.Obj().Pkg().Path() != "os/exec" || t.Obj().Name() != "Cmd" {
						continue
					}
					if !isStdin(x.Rhs[i]) {
						continue
					}
					r.Bad(rule, funcKey("interp", fd)+"#exec.Cmd.Stdin = "+exprString(x.Rhs[i]), x.Pos(),
						"the runner's stdin is handed to os/exec, which calls Fd() on every file a child inherits: after the first external command that inherits a pipe or FIFO stdin, a blocked `read` can no longer be interrupted by cancelling the context")
				}
			}
			return true
		})
	}
}

func blockEndsInReturn(b *ast.BlockStmt) bool {
	if b == nil || len(b.List) == 0 {
		return false
	}
	_, ok := b.List[len(b.List)-1].(*ast.ReturnStmt)
	return ok
}
