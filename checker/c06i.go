package main

import (
	"fmt"
	"go/ast"
	"go/constant"
	"go/token"
	"go/types"
	"strings"

	"golang.org/x/tools/go/packages"
)

// R06i: an index with a constant or constant-offset position (x[0], x[i+1], x[len(x)-1]) on a slice or string
// must be dominated by some test of that value's length (or, for strings, of its emptiness), or sit in a table
// of reasoned invariants. This only decides that a length test exists on every path, not that it is the right one.
func checkConstIndexes(p *Prog, r *Result, pkg *packages.Package, rel string, rule string, exceptions map[string]string) {
	info := pkg.TypesInfo
	for _, fd := range p.AllFuncDecls(rel) {
		if strings.HasSuffix(p.Fset.Position(fd.Pos()).Filename, "_string.go") {
			continue // generated stringer tables index constant arrays
		}
		var g *FGraph
		type site struct {
			ix   *ast.IndexExpr
			body *ast.BlockStmt
		}
		var sites []site
		var walk func(body *ast.BlockStmt)
		walk = func(body *ast.BlockStmt) {
			inspectNoLit(body, func(n ast.Node) bool {
				if ix, ok := n.(*ast.IndexExpr); ok {
					sites = append(sites, site{ix, body})
				}
				return true
			})
		}
		walk(fd.Body)
		for _, s := range sites {
			ix := s.ix
			t := info.TypeOf(ix.X)
			if t == nil {
				continue
			}
			if tv, ok := info.Types[ix.X]; ok && tv.IsType() {
				continue // generic instantiation
			}
			switch u := t.Underlying().(type) {
			case *types.Slice:
			case *types.Basic:
				if u.Info()&types.IsString == 0 {
					continue
				}
			case *types.Pointer:
				continue
			default:
				continue // arrays, maps
			}
			// constant or offset index
			kind := ""
			idx := ast.Unparen(ix.Index)
			if tv := info.Types[idx]; tv.Value != nil {
				kind = "constant"
			} else if be, ok := idx.(*ast.BinaryExpr); ok && (be.Op == token.ADD || be.Op == token.SUB) {
				if tv := info.Types[be.Y]; tv.Value != nil {
					kind = "offset"
				}
			}
			if kind == "" {
				continue
			}
			subject := exprString(ix.X)
			key := fmt.Sprintf("%s#%s[%s]", funcKey(rel, fd), subject, exprString(ix.Index))
			if why, ok := exceptions[funcKey(rel, fd)+"#"+subject]; ok {
				// a conditional exception: the invariant only holds while a named flag is false, so the index must be
				// reached only through the failing branch of that flag (`!flag && … x[0]`)
				if rest, isCond := strings.CutPrefix(why, "only under `!"); isCond {
					flag, _, _ := strings.Cut(rest, "`")
					if g == nil {
						g = NewFGraph(info, fd.Body, nil)
					}
					blk := blockContaining(g, ix)
					under := blk != nil && underEdges(g, blk, func(e *FEdge) bool {
						if e.Cond == nil || e.Pol || e.Tag != nil || e.TypeCase {
							return false
						}
						id, ok := ast.Unparen(e.Cond).(*ast.Ident)
						return ok && id.Name == flag
					})
					if under {
						r.OK(rule, key, ix.Pos(), "exception: "+why)
						r.Except(funcKey(rel, fd)+"#"+subject, why)
						continue
					}
					// outside the flag's guard the exception does not apply: the index is judged like any other
				} else if rest, isBuilt := strings.CutPrefix(why, "built non-empty `"); isBuilt {
					// the belief "the parser never builds this empty" is proved at the construction sites
					tf, _, _ := strings.Cut(rest, "`")
					typ, field, _ := strings.Cut(tf, ".")
					fail := builtNonEmpty(p, pkg, rel, typ, field)
					r.Check(fail == "", rule, key, ix.Pos(), "exception: "+why+" — proved at the construction sites",
						fmt.Sprintf("%s is indexed at a constant position on the belief that the parser never builds a %s with an empty %s, and that belief does not hold: %s", subject, typ, field, fail))
					r.Except(funcKey(rel, fd)+"#"+subject, why)
					continue
				} else if strings.HasPrefix(why, "recogniser agreement:") {
					fail := rangeRecognisersAgree(p, pkg)
					r.Check(fail == "", rule, key, ix.Pos(), "exception: "+why+" — checked",
						fmt.Sprintf("%s is indexed at a constant position on the belief that a literal byte precedes the operator, and that belief does not hold: %s", subject, fail))
					r.Except(funcKey(rel, fd)+"#"+subject, why)
					continue
				} else {
					r.OK(rule, key, ix.Pos(), "exception: "+why)
					r.Except(funcKey(rel, fd)+"#"+subject, why)
					continue
				}
			}
			if g == nil {
				g = NewFGraph(info, fd.Body, nil)
			}
			blk, _ := g.BlockOf(ix)
			if blk == nil {
				continue // inside a function literal: judged with its own body below
			}
			tests := func(e ast.Node) bool {
				if e == nil {
					return false
				}
				hit := false
				ast.Inspect(e, func(n ast.Node) bool {
					switch x := n.(type) {
					case *ast.CallExpr:
						if isBuiltinCall(info, x, "len") && len(x.Args) == 1 && exprString(x.Args[0]) == subject {
							hit = true
						}
						// helpers that imply a length: strings.HasPrefix(x, …), bytes.HasPrefix
						if fn := calleeOf(info, x); fn != nil && fn.Pkg() != nil && (fn.Pkg().Path() == "strings" || fn.Pkg().Path() == "bytes") && strings.HasPrefix(fn.Name(), "Has") && len(x.Args) > 0 && exprString(x.Args[0]) == subject {
							hit = true
						}
					case *ast.BinaryExpr:
						if (x.Op == token.EQL || x.Op == token.NEQ) && exprString(x.X) == subject && (exprString(x.Y) == `""` || exprString(x.Y) == "nil") {
							hit = true
						}
					}
					return !hit
				})
				return hit
			}
			// x[i+K]: a bound on i alone (i < len(x)) does not cover it; the test must involve the offset itself
			// (i+K < len(x), i < len(x)-K) or come from a helper that implies the length
			needOffset := ""
			if be, ok := idx.(*ast.BinaryExpr); ok && be.Op == token.ADD && kind == "offset" {
				needOffset = exprString(be.Y)
			}
			baseTests := tests
			if needOffset != "" {
				idxText := strings.ReplaceAll(exprString(idx), " ", "")
				tests = func(e ast.Node) bool {
					if e == nil || !baseTests(e) {
						return false
					}
					hit := false
					ast.Inspect(e, func(n ast.Node) bool {
						if be, ok := n.(*ast.BinaryExpr); ok {
							switch be.Op {
							case token.ADD:
								if strings.ReplaceAll(exprString(be), " ", "") == idxText {
									hit = true
								}
							case token.SUB:
								if c, ok := ast.Unparen(be.X).(*ast.CallExpr); ok && isBuiltinCall(info, c, "len") && exprString(be.Y) >= needOffset {
									hit = true
								}
							}
						}
						return !hit
					})
					return hit
				}
			}
			guarded := underEdges(g, blk, func(e *FEdge) bool { return tests(e.Cond) || (e.Tag != nil && tests(e.Tag)) })
			// a test earlier in the same && chain: len(x) > 0 && x[0] == …
			if !guarded {
				ast.Inspect(fd.Body, func(n ast.Node) bool {
					be, ok := n.(*ast.BinaryExpr)
					if !ok || be.Op != token.LAND {
						return true
					}
					if be.Y.Pos() <= ix.Pos() && ix.End() <= be.Y.End() && tests(be.X) {
						guarded = true
					}
					return true
				})
			}
			// x[i-K] with i the key of a range over x: in range above as soon as i >= K, which a test of i establishes
			if !guarded && kind == "offset" {
				if be, ok := idx.(*ast.BinaryExpr); ok && be.Op == token.SUB {
					if id, ok := ast.Unparen(be.X).(*ast.Ident); ok {
						iobj := info.ObjectOf(id)
						isKey := false
						ast.Inspect(fd.Body, func(n ast.Node) bool {
							rs, ok := n.(*ast.RangeStmt)
							if !ok || rs.Key == nil || !(rs.Body.Pos() <= ix.Pos() && ix.End() <= rs.Body.End()) {
								return true
							}
							if kid, ok := rs.Key.(*ast.Ident); ok && info.ObjectOf(kid) == iobj && exprString(rs.X) == subject {
								isKey = true
							}
							return true
						})
						kv, _ := constant.Int64Val(constant.ToInt(info.Types[be.Y].Value))
						if isKey && kv >= 1 {
							b2 := blockContaining(g, ix)
							guarded = b2 != nil && underEdges(g, b2, func(e *FEdge) bool {
								ce, ok := ast.Unparen(e.Cond).(*ast.BinaryExpr)
								if !ok || e.Tag != nil {
									return false
								}
								cid, ok := ast.Unparen(ce.X).(*ast.Ident)
								if !ok || info.ObjectOf(cid) != iobj {
									return false
								}
								tv, has := info.Types[ce.Y]
								if !has || tv.Value == nil {
									return false
								}
								c, _ := constant.Int64Val(constant.ToInt(tv.Value))
								switch ce.Op {
								case token.EQL:
									return !e.Pol && c == 0 && kv == 1
								case token.NEQ:
									return e.Pol && c == 0 && kv == 1
								case token.GTR:
									return e.Pol && c+1 >= kv
								case token.GEQ:
									return e.Pol && c >= kv
								case token.LSS:
									return !e.Pol && c >= kv
								case token.LEQ:
									return !e.Pol && c+1 >= kv
								}
								return false
							})
						}
					}
				}
			}
			// a range over the same value bounds x[i+1]-style accesses only with a test; x[i-1] needs one too
			if !guarded {
				// the subject was assigned in this function from an expression that fixes its length (make with constant, literal, append(... , one elem))
				if id, ok := ast.Unparen(ix.X).(*ast.Ident); ok {
					if def := singleDef(info, fd, info.ObjectOf(id)); def != nil {
						if cl, ok := ast.Unparen(def).(*ast.CompositeLit); ok && len(cl.Elts) > 0 && kind == "constant" {
							guarded = true
						}
					}
				}
			}
			// the subject was just given a known length in the same statement list: x = y[:K]; x[0] = …
			if !guarded {
				ast.Inspect(fd.Body, func(n ast.Node) bool {
					var list []ast.Stmt
					switch b := n.(type) {
					case *ast.BlockStmt:
						list = b.List
					case *ast.CaseClause:
						list = b.Body
					default:
						return true
					}
					for i, st := range list {
						if !(st.Pos() <= ix.Pos() && ix.End() <= st.End()) {
							continue
						}
						for j := i - 1; j >= 0 && j >= i-3; j-- {
							as, ok := list[j].(*ast.AssignStmt)
							if !ok || len(as.Lhs) != 1 || len(as.Rhs) != 1 || exprString(as.Lhs[0]) != subject {
								continue
							}
							if se, ok := ast.Unparen(as.Rhs[0]).(*ast.SliceExpr); ok && se.High != nil {
								if tv := info.Types[se.High]; tv.Value != nil && kind == "constant" {
									if iv := info.Types[idx]; iv.Value != nil && iv.Value.String() < tv.Value.String() {
										guarded = true
									}
								}
							}
						}
					}
					return true
				})
			}
			r.Check(guarded, rule, key, ix.Pos(), "some test of the length of "+subject+" dominates the access",
				fmt.Sprintf("%s is indexed at a fixed position and no path to this access tests its length: an empty or short value panics", subject))
		}
	}
}

// builtNonEmpty proves the belief behind an index exception of the form "T.F is never empty because the parser reports
// an error otherwise": at every construction site `v := &T{…}` in the package, every path from the literal to the
// function's return appends to v.F, or calls a function that always reports an error — except paths that have just
// tested v.F to be non-empty (the failing branch of `len(v.F) == 0`). It returns "" when the proof goes through and
// otherwise says which site fails.
func builtNonEmpty(p *Prog, pkg *packages.Package, rel, typ, field string) string {
	info := pkg.TypesInfo
	t := lookupType(pkg, typ)
	errPass := lookupFunc(pkg, "Parser.errPass")
	if t == nil || errPass == nil {
		return "type " + typ + " or Parser.errPass not found"
	}
	fgs := newFuncGraphs(pkg)
	reporters := computeMustError(fgs, errPass)
	sites := 0
	for _, fd := range p.AllFuncDecls(rel) {
		if fd.Body == nil || strings.HasSuffix(p.Position(fd.Pos()), "_test.go") {
			continue
		}
		var lits []*ast.AssignStmt
		inspectNoLit(fd.Body, func(n ast.Node) bool {
			if as, ok := n.(*ast.AssignStmt); ok && len(as.Lhs) == 1 && len(as.Rhs) == 1 {
				if lit := compositeOf(as.Rhs[0]); lit != nil && namedOf(info.TypeOf(lit)) == t {
					lits = append(lits, as)
				}
			}
			return true
		})
		nLits := 0
		ast.Inspect(fd.Body, func(n ast.Node) bool {
			if lit, ok := n.(*ast.CompositeLit); ok && namedOf(info.TypeOf(lit)) == t {
				nLits++
			}
			return true
		})
		if nLits != len(lits) {
			return fmt.Sprintf("%s builds a %s that is not bound to a local", funcKey(rel, fd), typ)
		}
		if len(lits) == 0 {
			continue
		}
		g := NewFGraph(info, fd.Body, nil)
		for _, as := range lits {
			sites++
			id, ok := as.Lhs[0].(*ast.Ident)
			if !ok {
				return fmt.Sprintf("%s binds the new %s to something other than a local", funcKey(rel, fd), typ)
			}
			obj := info.ObjectOf(id)
			isField := func(e ast.Expr) bool {
				se, ok := ast.Unparen(e).(*ast.SelectorExpr)
				if !ok || se.Sel.Name != field {
					return false
				}
				x, ok := ast.Unparen(se.X).(*ast.Ident)
				return ok && info.ObjectOf(x) == obj
			}
			// the literal itself may set the field to a non-empty composite
			if lit := compositeOf(as.Rhs[0]); lit != nil {
				filled := false
				for _, el := range lit.Elts {
					if kv, ok := el.(*ast.KeyValueExpr); ok {
						if k, ok := kv.Key.(*ast.Ident); ok && k.Name == field {
							if cl, ok := ast.Unparen(kv.Value).(*ast.CompositeLit); ok && len(cl.Elts) > 0 {
								filled = true
							}
						}
					}
				}
				if filled {
					continue
				}
			}
			hit := func(n ast.Node) bool {
				found := false
				inspectNoLit(n, func(m ast.Node) bool {
					switch x := m.(type) {
					case *ast.AssignStmt:
						for i, l := range x.Lhs {
							if isField(l) && i < len(x.Rhs) {
								if c, ok := ast.Unparen(x.Rhs[i]).(*ast.CallExpr); ok && isBuiltinCall(info, c, "append") && len(c.Args) > 1 {
									found = true
								}
							}
						}
					case *ast.CallExpr:
						if callee := calleeOf(info, x); callee != nil && reporters[callee.Origin()] {
							found = true
						}
					}
					return true
				})
				return found
			}
			skip := func(e *FEdge) bool {
				if e.Cond == nil || e.Tag != nil || e.TypeCase {
					return false
				}
				be, ok := ast.Unparen(e.Cond).(*ast.BinaryExpr)
				if !ok {
					return false
				}
				c, ok := ast.Unparen(be.X).(*ast.CallExpr)
				if !ok || !isBuiltinCall(info, c, "len") || len(c.Args) != 1 || !isField(c.Args[0]) {
					return false
				}
				tv, has := info.Types[be.Y]
				if !has || tv.Value == nil || tv.Value.ExactString() != "0" {
					return false
				}
				// edges on which the field is known to be non-empty
				return (be.Op == token.EQL && !e.Pol) || (be.Op == token.NEQ && e.Pol) || (be.Op == token.GTR && e.Pol)
			}
			b, idx := g.BlockOf(as)
			if b == nil {
				return fmt.Sprintf("the %s literal in %s was not found in the flow graph", typ, funcKey(rel, fd))
			}
			if ok, _ := g.MustPass(b, idx, g.Exit, hit, skip); !ok {
				return fmt.Sprintf("%s can return a %s whose %s is empty without having reported an error (%s)", funcKey(rel, fd), typ, field, p.Position(as.Pos()))
			}
		}
	}
	if sites == 0 {
		return "no construction site of " + typ + " found"
	}
	return ""
}

// rangeRecognisersAgree: isLitRedir looks at the byte before a redirection operator inside a literal. A literal can
// begin with `<` only when next() took it for a zsh numeric range and called advanceLitNone on it; the loop there then
// has to take its own range branch on that first rune, or it falls through to isLitRedir with an empty literal. So every
// condition the loop's branch puts beside zshNumRange() (other than on the rune itself) is one the call site in next()
// also puts beside it. Returns "" when they agree.
func rangeRecognisersAgree(p *Prog, pkg *packages.Package) string {
	info := pkg.TypesInfo
	nextFd := p.FuncDecl("syntax", "Parser.next")
	loopFd := p.FuncDecl("syntax", "Parser.advanceLitNone")
	rec := lookupFunc(pkg, "Parser.zshNumRange")
	if nextFd == nil || loopFd == nil || rec == nil {
		return "Parser.next, Parser.advanceLitNone or Parser.zshNumRange not found"
	}
	self := info.Defs[loopFd.Name]
	atomsWith := func(cond ast.Expr) (map[string]bool, bool) {
		out := map[string]bool{}
		has := false
		for _, cj := range conjuncts(cond) {
			if c, ok := ast.Unparen(cj).(*ast.CallExpr); ok && calleeOf(info, c) == rec {
				has = true
				continue
			}
			out[exprString(cj)] = true
		}
		return out, has
	}
	// the loop's branch
	var loopAtoms map[string]bool
	ast.Inspect(loopFd.Body, func(n ast.Node) bool {
		is, ok := n.(*ast.IfStmt)
		if !ok || loopAtoms != nil {
			return true
		}
		if a, has := atomsWith(is.Cond); has {
			loopAtoms = a
		}
		return true
	})
	if loopAtoms == nil {
		return "advanceLitNone no longer tests zshNumRange() in a branch of its own"
	}
	// the call sites in next() that can pass `<` or `>`
	sites := 0
	fail := ""
	var stack []ast.Node
	ast.Inspect(nextFd.Body, func(n ast.Node) bool {
		if n == nil {
			stack = stack[:len(stack)-1]
			return true
		}
		stack = append(stack, n)
		c, ok := n.(*ast.CallExpr)
		if !ok || calleeOf(info, c) != self {
			return true
		}
		// inside a case clause that lists '<' or '>'?
		lists := false
		callAtoms := map[string]bool{}
		for i := len(stack) - 1; i >= 0; i-- {
			switch x := stack[i].(type) {
			case *ast.CaseClause:
				for _, e := range x.List {
					if tv, ok := info.Types[e]; ok && tv.Value != nil {
						if v := tv.Value.ExactString(); v == "60" || v == "62" {
							lists = true
						}
					}
				}
			case *ast.IfStmt:
				if i+1 < len(stack) && stack[i+1] == ast.Node(x.Body) {
					a, _ := atomsWith(x.Cond)
					for k := range a {
						callAtoms[k] = true
					}
				}
			}
		}
		if !lists {
			return true
		}
		sites++
		for a := range loopAtoms {
			if strings.Contains(a, "r ==") || strings.Contains(a, "r !=") {
				continue
			}
			if !callAtoms[a] {
				fail = fmt.Sprintf("advanceLitNone takes its numeric-range branch only under `%s`, which the call at %s, made for a literal that begins with the operator, does not test: where they disagree the loop falls through to isLitRedir with an empty literal", a, p.Position(c.Pos()))
			}
		}
		return true
	})
	if sites == 0 {
		return ""
	}
	return fail
}
