package main

import (
	"fmt"
	"go/ast"
	"go/constant"
	"go/types"
	"sort"
	"strings"

	"golang.org/x/tools/go/packages"
)

// R01e: the printer writes through a text/tabwriter.Writer, which does not pass '\t', '\v' and '\f' through as they are
// (cell terminators; '\f' also ends the line) unless they sit between tabwriter.Escape bytes. Text that comes from the
// tree must therefore reach the writer only through code that escapes it, and every escaping decision must cover all
// three bytes. A form feed in a word printed raw becomes a line break: the rest of the word is a new command.
//
//   (a) every condition under which tabwriter.Escape is written around non-constant content, and which consults a
//       constant byte set (strings.Contains/ContainsAny/IndexByte/ContainsRune with a constant operand), has a set
//       that contains \t, \v and \f;
//   (b) a string read from a field of a syntax node type (Lit.Value, SglQuoted.Value, Comment.Text, …) is written with
//       WriteString/Write only inside a function that does (a) — directly, or through a string parameter of a printer
//       method that writes it raw (fixpoint over parameters).
var tabwriterSpecial = []byte{'\t', '\v', '\f'}

func checkTabwriterEscaping(p *Prog, r *Result, pkg *packages.Package, si *syntaxInfo, rule string) {
	info := pkg.TypesInfo
	isEscapeConst := func(e ast.Expr) bool {
		sel, ok := ast.Unparen(e).(*ast.SelectorExpr)
		if !ok || sel.Sel.Name != "Escape" {
			return false
		}
		c, ok := info.ObjectOf(sel.Sel).(*types.Const)
		return ok && c.Pkg() != nil && c.Pkg().Path() == "text/tabwriter"
	}
	writesEscape := func(n ast.Node) bool {
		found := false
		ast.Inspect(n, func(x ast.Node) bool {
			if c, ok := x.(*ast.CallExpr); ok {
				for _, a := range c.Args {
					if isEscapeConst(a) {
						found = true
					}
				}
			}
			return true
		})
		return found
	}
	// constant byte sets consulted by a condition
	setsIn := func(cond ast.Expr) (sets []string) {
		ast.Inspect(cond, func(x ast.Node) bool {
			c, ok := x.(*ast.CallExpr)
			if !ok {
				return true
			}
			fn := calleeOf(info, c)
			if fn == nil || fn.Pkg() == nil || (fn.Pkg().Path() != "strings" && fn.Pkg().Path() != "bytes") {
				return true
			}
			switch fn.Name() {
			case "Contains", "ContainsAny", "IndexByte", "IndexAny", "ContainsRune", "IndexRune":
				for _, a := range c.Args {
					if tv, ok := info.Types[a]; ok && tv.Value != nil {
						switch tv.Value.Kind() {
						case constant.String:
							sets = append(sets, constant.StringVal(tv.Value))
						case constant.Int:
							if v, ok := constant.Int64Val(tv.Value); ok && v < 256 {
								sets = append(sets, string([]byte{byte(v)}))
							}
						}
					}
				}
			}
			return true
		})
		return
	}
	escapers := map[*ast.FuncDecl]bool{}
	nA := 0
	for _, fd := range p.AllFuncDecls("syntax") {
		seen := map[string]int{}
		var visit func(n ast.Node, conds []ast.Expr)
		visit = func(n ast.Node, conds []ast.Expr) {
			switch x := n.(type) {
			case *ast.IfStmt:
				visit(x.Body, append(conds[:len(conds):len(conds)], x.Cond))
				if x.Else != nil {
					visit(x.Else, conds)
				}
				return
			case *ast.CaseClause:
				cs := conds
				for _, e := range x.List {
					cs = append(cs[:len(cs):len(cs)], e)
				}
				for _, s := range x.Body {
					visit(s, cs)
				}
				return
			case *ast.ExprStmt, *ast.DeferStmt:
				if writesEscape(x) {
					var sets []string
					for _, c := range conds {
						sets = append(sets, setsIn(c)...)
					}
					if len(sets) == 0 {
						return // unconditional escape, or a condition on something else (indentation): nothing to compare
					}
					escapers[fd] = true
					all := strings.Join(sets, "")
					missing := ""
					for _, b := range tabwriterSpecial {
						if strings.IndexByte(all, b) < 0 {
							missing += fmt.Sprintf(" %q", string(b))
						}
					}
					key := fmt.Sprintf("%s#escape decision over %q", funcKey("syntax", fd), all)
					seen[key]++
					if seen[key] > 1 {
						return
					}
					nA++
					r.Check(missing == "", rule, funcKey("syntax", fd)+"#escape decision covers \\t \\v \\f", x.Pos(),
						"the constant set consulted before escaping contains \\t, \\v and \\f",
						"text is only wrapped in tabwriter.Escape when it contains one of "+fmt.Sprintf("%q", all)+"; missing"+missing+": the tabwriter interprets that byte (a form feed ends the line: the rest of a word becomes a new command)")
				}
				return
			}
			// generic descent
			ast.Inspect(n, func(m ast.Node) bool {
				if m == n || m == nil {
					return true
				}
				switch m.(type) {
				case *ast.IfStmt, *ast.CaseClause, *ast.ExprStmt, *ast.DeferStmt:
					visit(m, conds)
					return false
				case *ast.FuncLit:
					return false
				}
				return true
			})
		}
		visit(fd.Body, nil)
	}
	if nA == 0 {
		r.Undecided(rule, "syntax#escape decisions", 0, "no place in package syntax decides, from a constant byte set, whether to wrap text in tabwriter.Escape: the escaping is done somewhere this rule does not see")
	}

	// (b) taint: node string fields -> raw writes
	isNodeStringField := func(e ast.Expr) (string, bool) {
		sel, ok := ast.Unparen(e).(*ast.SelectorExpr)
		if !ok {
			return "", false
		}
		fv := selectorField(info, sel)
		if fv == nil {
			return "", false
		}
		if b, ok := fv.Type().Underlying().(*types.Basic); !ok || b.Kind() != types.String {
			return "", false
		}
		owner := namedOf(derefType(info.TypeOf(sel.X)))
		if owner == nil || !si.implementsNode(types.NewPointer(owner)) && !si.implementsNode(owner) {
			return "", false
		}
		return owner.Obj().Name() + "." + fv.Name(), true
	}
	printerT := lookupType(pkg, "Printer")
	type pkey struct {
		fn  *types.Func
		idx int
	}
	rawParam := map[pkey]bool{}
	decl := map[*types.Func]*ast.FuncDecl{}
	for _, fd := range p.AllFuncDecls("syntax") {
		if fo, ok := info.Defs[fd.Name].(*types.Func); ok {
			decl[fo] = fd
		}
	}
	paramIndex := func(fd *ast.FuncDecl, obj types.Object) int {
		i := 0
		for _, f := range fd.Type.Params.List {
			for _, nm := range f.Names {
				if info.Defs[nm] == obj {
					return i
				}
				i++
			}
		}
		return -1
	}
	isRawWrite := func(c *ast.CallExpr) bool {
		sel, ok := ast.Unparen(c.Fun).(*ast.SelectorExpr)
		if !ok || (sel.Sel.Name != "WriteString" && sel.Sel.Name != "Write") || len(c.Args) != 1 {
			return false
		}
		// on a writer (field w / bufWriter), not on a strings.Builder
		t := info.TypeOf(sel.X)
		if t == nil {
			return false
		}
		if n := namedOf(derefType(t)); n != nil && n.Obj().Pkg() != nil && n.Obj().Pkg().Path() == "strings" {
			return false
		}
		return true
	}
	// expression mentions: node string field (returns its name) or identifier objects
	mentions := func(e ast.Expr) (fields []string, idents []types.Object) {
		ast.Inspect(e, func(x ast.Node) bool {
			switch y := x.(type) {
			case *ast.SelectorExpr:
				if name, ok := isNodeStringField(y); ok {
					fields = append(fields, name)
				}
			case *ast.Ident:
				if o := info.Uses[y]; o != nil {
					idents = append(idents, o)
				}
			}
			return true
		})
		return
	}
	// fixpoint: string parameters written raw
	for changed := true; changed; {
		changed = false
		for fo, fd := range decl {
			if escapers[fd] {
				continue
			}
			for _, c := range nodeCallsDeep(fd.Body) {
				var args []ast.Expr
				var sinkIdx []int
				if isRawWrite(c) {
					args, sinkIdx = c.Args, []int{0}
				} else if callee := calleeOf(info, c); callee != nil {
					for k := range rawParam {
						if k.fn == callee.Origin() && k.idx < len(c.Args) {
							args = c.Args
							sinkIdx = append(sinkIdx, k.idx)
						}
					}
				}
				for _, si := range sinkIdx {
					_, ids := mentions(args[si])
					for _, o := range ids {
						if idx := paramIndex(fd, o); idx >= 0 {
							if b, ok := o.Type().Underlying().(*types.Basic); ok && b.Kind() == types.String && !rawParam[pkey{fo, idx}] {
								rawParam[pkey{fo, idx}] = true
								changed = true
							}
						}
					}
				}
			}
		}
	}
	nB := 0
	type rep struct{ key, msg string; pos ast.Node }
	var reps []rep
	for fo, fd := range decl {
		if escapers[fd] {
			continue
		}
		// only printer code: methods of Printer and of the writers it owns
		if fd.Recv == nil {
			continue
		}
		_ = fo
		for _, c := range nodeCallsDeep(fd.Body) {
			var sinkArgs []ast.Expr
			how := ""
			if isRawWrite(c) {
				sinkArgs, how = []ast.Expr{c.Args[0]}, "written raw"
			} else if callee := calleeOf(info, c); callee != nil {
				for k := range rawParam {
					if k.fn == callee.Origin() && k.idx < len(c.Args) {
						sinkArgs = append(sinkArgs, c.Args[k.idx])
						how = "handed to " + callee.Name() + ", which writes it raw"
					}
				}
			}
			for _, a := range sinkArgs {
				fields, _ := mentions(a)
				for _, f := range fields {
					reps = append(reps, rep{fmt.Sprintf("%s#%s %s", funcKey("syntax", fd), f, how), f, c})
				}
			}
		}
	}
	// positive instances: tree text handed to an escaping function
	okSeen := map[string]bool{}
	for _, fd := range p.AllFuncDecls("syntax") {
		for _, c := range nodeCallsDeep(fd.Body) {
			callee := calleeOf(info, c)
			if callee == nil || decl[callee.Origin()] == nil || !escapers[decl[callee.Origin()]] {
				continue
			}
			for _, a := range c.Args {
				fields, _ := mentions(a)
				for _, f := range fields {
					key := fmt.Sprintf("%s#%s goes through %s", funcKey("syntax", fd), f, callee.Name())
					if !okSeen[key] {
						okSeen[key] = true
						r.OK(rule, key, c.Pos(), "written through the escaping writer")
					}
				}
			}
		}
	}
	sort.Slice(reps, func(i, j int) bool { return reps[i].key < reps[j].key })
	seenKey := map[string]bool{}
	for _, rp := range reps {
		if seenKey[rp.key] {
			continue
		}
		seenKey[rp.key] = true
		nB++
		r.Bad(rule, rp.key, rp.pos.Pos(), "text from the tree ("+rp.msg+") reaches the tabwriter without going through the escaping writer: a tab, vertical tab or form feed in it is interpreted instead of printed")
	}
	_ = printerT
	r.Notef("%s: %d escape decisions checked; %d string parameters are written raw (%d tainted uses)", rule, nA, len(rawParam), nB)
}
