package main

import (
	"go/ast"
	"go/types"
)

// R31g: a Runner created by the interpreter itself while a program runs (the ENOEXEC script fallback) must not fall back
// to New's default exec handler, whose kill timeout is a constant: the timeout the embedding program configured has to
// reach it. Each interp.New call in non-test code of package interp must carry an ExecHandler/ExecHandlers option whose
// argument mentions a time.Duration parameter of the enclosing function, and every call site of that function must pass
// a time.Duration parameter (or captured parameter) of its own — the chain ends at DefaultExecHandler's parameter.
func checkNestedRunnerTimeout(p *Prog, r *Result, rule string) {
	pkg := p.Pkg("interp")
	info := pkg.TypesInfo
	newFn := lookupFunc(pkg, "New")
	if newFn == nil {
		r.Fatalf("interp.New not found")
		return
	}
	isDurationParam := func(e ast.Expr) bool {
		found := false
		ast.Inspect(e, func(n ast.Node) bool {
			id, ok := n.(*ast.Ident)
			if !ok {
				return true
			}
			v, ok := info.ObjectOf(id).(*types.Var)
			if ok && v.Type().String() == "time.Duration" && isParamVar(pkg, v) {
				found = true
			}
			return true
		})
		return found
	}
	for _, fd := range p.AllFuncDecls("interp") {
		for _, call := range nodeCallsDeep(fd.Body) {
			if calleeOf(info, call) != newFn {
				continue
			}
			key := funcKey("interp", fd) + "#nested New"
			ok := false
			for _, a := range call.Args {
				oc, isCall := ast.Unparen(a).(*ast.CallExpr)
				if !isCall {
					continue
				}
				if c := calleeOf(info, oc); c != nil && (c.Name() == "ExecHandler" || c.Name() == "ExecHandlers") && len(oc.Args) > 0 {
					for _, oa := range oc.Args {
						if isDurationParam(oa) {
							ok = true
						}
					}
				}
			}
			r.Check(ok, rule, key, call.Pos(), "passes an exec handler built from the enclosing function's time.Duration parameter",
				"a Runner created while a program runs gets no exec handler built from the configured kill timeout: it falls back to New's default (a constant timeout), so after cancellation a process that ignores the interrupt outlives the timeout the embedder asked for")
			// call sites of the enclosing function
			fo, _ := info.Defs[fd.Name].(*types.Func)
			for _, fd2 := range p.AllFuncDecls("interp") {
				for _, c2 := range nodeCallsDeep(fd2.Body) {
					if fo == nil || calleeOf(info, c2) != fo {
						continue
					}
					passes := false
					for _, a := range c2.Args {
						if t := info.TypeOf(a); t != nil && t.String() == "time.Duration" && isDurationParam(a) {
							passes = true
						}
					}
					r.Check(passes, rule, funcKey("interp", fd2)+"#calls "+fd.Name.Name, c2.Pos(), "hands its own time.Duration parameter on",
						"the configured kill timeout is not handed to "+fd.Name.Name+": the nested runner uses some other timeout")
				}
			}
		}
	}
}

func nodeCallsDeep(n ast.Node) []*ast.CallExpr {
	var out []*ast.CallExpr
	if n == nil {
		return nil
	}
	ast.Inspect(n, func(x ast.Node) bool {
		if c, ok := x.(*ast.CallExpr); ok {
			out = append(out, c)
		}
		return true
	})
	return out
}

// isParamVar reports whether v is declared as a parameter of some function declaration or literal of the package.
func isParamVar(_ any, v *types.Var) bool { return v != nil && v.Kind() == types.ParamVar }
