package main

import (
	"fmt"
	"go/ast"
	"go/token"
	"go/types"
	"strings"

	"golang.org/x/tools/go/packages"
)

// R28m: a loop `for …; i < len(X); …` bounds i by X, so inside it only X may be indexed with i. Indexing another slice
// Y with the loop variable is safe only when Y is exactly as long as X, which nothing in the loop header says; on the
// pinned tree no loop does it (every one of the bounded loops indexes the slice that bounds it), so the rule is the
// code's own unanimous idiom. It fires when a refactor bounds the loop by the original slice and indexes a rewritten
// copy (alias expansion: `for i < len(words) { … args[i] …; args = slices.Concat(…) }`).
func checkLoopBoundMatchesIndexed(p *Prog, r *Result, pkg *packages.Package, rel, rule string) (loops int) {
	info := pkg.TypesInfo
	for _, fd := range p.AllFuncDecls(rel) {
		if fd.Body == nil || strings.HasSuffix(p.Position(fd.Pos()), "_test.go") {
			continue
		}
		seen := map[string]int{}
		ast.Inspect(fd.Body, func(n ast.Node) bool {
			fs, ok := n.(*ast.ForStmt)
			if !ok || fs.Cond == nil {
				return true
			}
			// one conjunct of the condition is i < len(X)
			for _, cj := range conjuncts(fs.Cond) {
				be, ok := ast.Unparen(cj).(*ast.BinaryExpr)
				if !ok || be.Op != token.LSS {
					continue
				}
				id, ok := ast.Unparen(be.X).(*ast.Ident)
				if !ok {
					continue
				}
				iv := info.ObjectOf(id)
				c, ok := stripConv(info, be.Y).(*ast.CallExpr)
				if !ok || len(c.Args) != 1 || !isBuiltinCall(info, c, "len") {
					continue
				}
				xT := info.TypeOf(c.Args[0])
				if xT == nil {
					continue
				}
				switch xT.Underlying().(type) {
				case *types.Slice, *types.Basic, *types.Array:
				default:
					continue
				}
				x := exprString(c.Args[0])
				loops++
				bad := false
				ast.Inspect(fs.Body, func(m ast.Node) bool {
					ie, ok := m.(*ast.IndexExpr)
					if !ok {
						return true
					}
					ii, ok := ast.Unparen(ie.Index).(*ast.Ident)
					if !ok || info.ObjectOf(ii) != iv {
						return true
					}
					if _, isMap := info.TypeOf(ie.X).Underlying().(*types.Map); isMap {
						return true
					}
					if y := exprString(ie.X); y != x {
						bad = true
						key := fmt.Sprintf("%s#loop bounded by len(%s) indexes %s[%s]", funcKey(rel, fd), x, y, id.Name)
						seen[key]++
						if seen[key] > 1 {
							key += fmt.Sprintf("#%d", seen[key])
						}
						r.Bad(rule, key, ie.Pos(), fmt.Sprintf("the loop variable %s is bounded by len(%s) but indexes %s, whose length the loop does not test: when %s is shorter (it is rewritten inside the loop, or simply another slice) the index is out of range and panics", id.Name, x, y, y))
					}
					return true
				})
				if !bad {
					key := fmt.Sprintf("%s#loop bounded by len(%s) indexes only %s with %s", funcKey(rel, fd), x, x, id.Name)
					seen[key]++
					if seen[key] > 1 {
						key += fmt.Sprintf("#%d", seen[key])
					}
					r.OK(rule, key, fs.Pos(), "every index by the loop variable is into the slice that bounds it")
				}
			}
			return true
		})
	}
	return loops
}
