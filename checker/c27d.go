package main

import (
	"fmt"
	"go/ast"
	"go/token"
	"go/types"
	"sort"
)

// R27d: isolating constructs run their statements on a copy.
//
// Regions are found by what they are, not where they are:
//   - function literals stored in the CmdSubst / ProcSubst fields of an expand.Config literal,
//   - the clause for *syntax.Subshell in a type switch over syntax.Command,
//   - the clause of a switch over BinaryCmd.Op that lists syntax.Pipe,
//   - the body of an `if` whose condition reads Stmt.Background.
//
// Effects are parameter-sensitive: W[f][i] says that f may change shell state the property lists (variables,
// functions, aliases, options, directory, positional parameters) *reachable from its i-th parameter* (-1 is the
// receiver). Base facts: a store through `x.F…` where F is one of the state fields of Runner and x is rooted at
// parameter i; an implementation of expand.WriteEnviron.Set writes through its receiver. A call g(…a_j…) with W[g][j]
// makes W[f][i] for every parameter i that a_j is rooted at. "Rooted at" follows selectors, indexing, address-of,
// type assertions, reference-typed elements of composite literals (expandEnv{r}), locals through all their
// assignments, and call results (conservatively derived from the receiver and every argument) — except results of
// subshell()/Subshell(), which are copies. Function literals are part of the function that contains them, except
// those stored into struct fields (callbacks somebody else runs).
//
// Inside a region, no call with W[g][j] may have an actual a_j rooted at the enclosing function's receiver or
// parameters: what it changes must be a copy. So `r2 := r.subshell(false); r2.stmts(…)` is fine, and so is a helper
// `r.runIsolated(…)` that makes the copy itself; `r.stmt(…)` or `r.fields(…)` on the parent is not.
var c27StateFields = []string{"writeEnv", "Vars", "Funcs", "alias", "opts", "Dir", "Params"}

type effSlot struct {
	fn  *types.Func
	idx int
}

type effectAnalysis struct {
	g         *refGraph
	state     map[*types.Var]bool
	copyFns   map[*types.Func]bool
	w         map[effSlot]string // witness
	impls     func(*types.Func) []*types.Func
	slotCache map[*types.Func]map[types.Object]int
}

func (a *effectAnalysis) slots(fo *types.Func) map[types.Object]int {
	if m, ok := a.slotCache[fo]; ok {
		return m
	}
	m := map[types.Object]int{}
	fd := a.g.decl[fo]
	info := a.g.pkgOf[fo].TypesInfo
	if fd.Recv != nil && len(fd.Recv.List) > 0 && len(fd.Recv.List[0].Names) > 0 {
		m[info.Defs[fd.Recv.List[0].Names[0]]] = -1
	}
	i := 0
	for _, f := range fd.Type.Params.List {
		if len(f.Names) == 0 {
			i++
			continue
		}
		for _, nm := range f.Names {
			m[info.Defs[nm]] = i
			i++
		}
	}
	a.slotCache[fo] = m
	return m
}

func refLike(t types.Type) bool {
	switch t.Underlying().(type) {
	case *types.Pointer, *types.Map, *types.Slice, *types.Interface, *types.Signature, *types.Chan:
		return true
	case *types.Struct:
		return true // may hold references
	}
	return false
}

// roots returns the objects (parameters, receiver, or — when keepLocals — copy locals are dropped) an expression is rooted at.
func (a *effectAnalysis) roots(info *types.Info, body ast.Node, e ast.Expr, depth int, seen map[types.Object]bool) map[types.Object]bool {
	out := map[types.Object]bool{}
	if e == nil || depth > 12 {
		return out
	}
	add := func(m map[types.Object]bool) {
		for k := range m {
			out[k] = true
		}
	}
	switch x := ast.Unparen(e).(type) {
	case *ast.Ident:
		obj := info.ObjectOf(x)
		v, ok := obj.(*types.Var)
		if !ok || v.IsField() {
			return out
		}
		if v.Kind() == types.ParamVar || v.Kind() == types.RecvVar {
			out[obj] = true
			return out
		}
		if seen[obj] {
			return out
		}
		seen[obj] = true
		// local: union over its assignments
		ast.Inspect(body, func(n ast.Node) bool {
			switch s := n.(type) {
			case *ast.AssignStmt:
				for i, l := range s.Lhs {
					id, ok := l.(*ast.Ident)
					if !ok || info.ObjectOf(id) != obj {
						continue
					}
					if len(s.Rhs) == len(s.Lhs) {
						add(a.roots(info, body, s.Rhs[i], depth+1, seen))
					} else if len(s.Rhs) == 1 {
						add(a.roots(info, body, s.Rhs[0], depth+1, seen))
					}
				}
			case *ast.ValueSpec:
				for i, nm := range s.Names {
					if info.ObjectOf(nm) == obj && i < len(s.Values) {
						add(a.roots(info, body, s.Values[i], depth+1, seen))
					}
				}
			case *ast.RangeStmt:
				for _, kv := range []ast.Expr{s.Key, s.Value} {
					if id, ok := kv.(*ast.Ident); ok && kv != nil && info.ObjectOf(id) == obj {
						add(a.roots(info, body, s.X, depth+1, seen))
					}
				}
			case *ast.TypeSwitchStmt:
				// x := y.(type): the clause objects are implicit; handled by the generic fallthrough below
			}
			return true
		})
		return out
	case *ast.SelectorExpr:
		if _, isPkg := info.ObjectOf(x.Sel).(*types.Func); isPkg && info.Selections[x] == nil {
			return out
		}
		return a.roots(info, body, x.X, depth+1, seen)
	case *ast.IndexExpr:
		return a.roots(info, body, x.X, depth+1, seen)
	case *ast.SliceExpr:
		return a.roots(info, body, x.X, depth+1, seen)
	case *ast.StarExpr:
		return a.roots(info, body, x.X, depth+1, seen)
	case *ast.UnaryExpr:
		return a.roots(info, body, x.X, depth+1, seen)
	case *ast.TypeAssertExpr:
		return a.roots(info, body, x.X, depth+1, seen)
	case *ast.CompositeLit:
		for _, el := range x.Elts {
			v := el
			if kv, ok := el.(*ast.KeyValueExpr); ok {
				v = kv.Value
			}
			if t := info.TypeOf(v); t != nil && refLike(t) {
				add(a.roots(info, body, v, depth+1, seen))
			}
		}
		return out
	case *ast.CallExpr:
		if callee := calleeOf(info, x); callee != nil && a.copyFns[callee.Origin()] {
			return out // a copy
		}
		if t := info.TypeOf(x); t != nil {
			if tup, ok := t.(*types.Tuple); ok {
				any := false
				for i := 0; i < tup.Len(); i++ {
					if refLike(tup.At(i).Type()) {
						any = true
					}
				}
				if !any {
					return out
				}
			} else if !refLike(t) {
				return out // a string, number or bool carries no reference to shell state
			}
		}
		if sel, ok := ast.Unparen(x.Fun).(*ast.SelectorExpr); ok && info.Selections[sel] != nil {
			add(a.roots(info, body, sel.X, depth+1, seen))
		}
		for _, arg := range x.Args {
			if t := info.TypeOf(arg); t != nil && refLike(t) {
				add(a.roots(info, body, arg, depth+1, seen))
			}
		}
		return out
	}
	return out
}

func (a *effectAnalysis) solve() {
	var fns []*types.Func
	for fo, fd := range a.g.decl {
		if fd.Body != nil {
			fns = append(fns, fo)
		}
	}
	sort.Slice(fns, func(i, j int) bool { return funcObjKey(fns[i]) < funcObjKey(fns[j]) })
	mark := func(fo *types.Func, idx int, why string) bool {
		k := effSlot{fo, idx}
		if _, ok := a.w[k]; ok {
			return false
		}
		a.w[k] = why
		return true
	}
	for changed := true; changed; {
		changed = false
		next := map[effSlot]string{}
		for _, fo := range fns {
			fd := a.g.decl[fo]
			info := a.g.pkgOf[fo].TypesInfo
			sl := a.slots(fo)
			stored := storedLits(fd.Body)
			note := func(rootsOf map[types.Object]bool, why string) {
				for o := range rootsOf {
					if idx, ok := sl[o]; ok {
						if _, have := a.w[effSlot{fo, idx}]; !have {
							if _, queued := next[effSlot{fo, idx}]; !queued {
								next[effSlot{fo, idx}] = why
							}
						}
					}
				}
			}
			var visit func(n ast.Node) bool
			visit = func(n ast.Node) bool {
				switch x := n.(type) {
				case *ast.FuncLit:
					return !stored[x]
				case *ast.AssignStmt:
					for _, l := range x.Lhs {
						if base, fv := stateStoreBase(info, l, a.state); fv != nil {
							note(a.roots(info, fd.Body, base, 0, map[types.Object]bool{}), "stores into Runner."+fv.Name())
						}
					}
				case *ast.IncDecStmt:
					if base, fv := stateStoreBase(info, x.X, a.state); fv != nil {
						note(a.roots(info, fd.Body, base, 0, map[types.Object]bool{}), "stores into Runner."+fv.Name())
					}
				case *ast.CallExpr:
					if (isBuiltinCall(info, x, "delete") || isBuiltinCall(info, x, "clear")) && len(x.Args) > 0 {
						if base, fv := stateStoreBase(info, x.Args[0], a.state); fv != nil {
							note(a.roots(info, fd.Body, base, 0, map[types.Object]bool{}), "removes from Runner."+fv.Name())
						}
						return true
					}
					callee := calleeOf(info, x)
					if callee == nil {
						return true
					}
					callee = callee.Origin()
					if a.copyFns[callee] {
						return true
					}
					targets := append([]*types.Func{callee}, a.impls(callee)...)
					for _, tg := range targets {
						for k, why := range a.w {
							if k.fn != tg {
								continue
							}
							var actual ast.Expr
							if k.idx == -1 {
								if sel, ok := ast.Unparen(x.Fun).(*ast.SelectorExpr); ok {
									actual = sel.X
								}
							} else if k.idx < len(x.Args) {
								actual = x.Args[k.idx]
							} else if len(x.Args) > 0 {
								actual = x.Args[len(x.Args)-1]
							}
							if actual == nil {
								continue
							}
							_ = why
							note(a.roots(info, fd.Body, actual, 0, map[types.Object]bool{}), "calls "+funcObjKey(tg))
						}
					}
				}
				return true
			}
			ast.Inspect(fd.Body, visit)
		}
		var ks []effSlot
		for k := range next {
			ks = append(ks, k)
		}
		sort.Slice(ks, func(i, j int) bool {
			if ks[i].fn != ks[j].fn {
				return funcObjKey(ks[i].fn) < funcObjKey(ks[j].fn)
			}
			return ks[i].idx < ks[j].idx
		})
		for _, k := range ks {
			if mark(k.fn, k.idx, next[k]) {
				changed = true
			}
		}
	}
}

// stateStoreBase: for an lvalue x.F… where F is a state field of Runner, returns x and F.
func stateStoreBase(info *types.Info, l ast.Expr, state map[*types.Var]bool) (ast.Expr, *types.Var) {
	e := ast.Unparen(l)
	for {
		switch x := e.(type) {
		case *ast.IndexExpr:
			e = ast.Unparen(x.X)
			continue
		case *ast.StarExpr:
			e = ast.Unparen(x.X)
			continue
		case *ast.SelectorExpr:
			if fv, ok := info.ObjectOf(x.Sel).(*types.Var); ok && fv.IsField() && state[fv] {
				return x.X, fv
			}
			e = ast.Unparen(x.X)
			continue
		}
		return nil, nil
	}
}

// storedLits: function literals stored into struct fields (composite-literal values, assignments to selectors).
func storedLits(n ast.Node) map[*ast.FuncLit]bool {
	stored := map[*ast.FuncLit]bool{}
	ast.Inspect(n, func(x ast.Node) bool {
		switch c := x.(type) {
		case *ast.KeyValueExpr:
			if lit, ok := ast.Unparen(c.Value).(*ast.FuncLit); ok {
				stored[lit] = true
			}
		case *ast.AssignStmt:
			for i, l := range c.Lhs {
				if _, isSel := ast.Unparen(l).(*ast.SelectorExpr); isSel && i < len(c.Rhs) {
					if lit, ok := ast.Unparen(c.Rhs[i]).(*ast.FuncLit); ok {
						stored[lit] = true
					}
				}
			}
		}
		return true
	})
	return stored
}

func (a *effectAnalysis) chain(k effSlot) string {
	s := funcObjKey(k.fn)
	seen := map[effSlot]bool{}
	for !seen[k] {
		seen[k] = true
		w := a.w[k]
		if len(w) > 6 && w[:6] == "calls " {
			var next *effSlot
			for k2 := range a.w {
				if funcObjKey(k2.fn) == w[6:] {
					k3 := k2
					if next == nil || k3.idx < next.idx {
						next = &k3
					}
				}
			}
			if next == nil {
				break
			}
			s += " → " + funcObjKey(next.fn)
			k = *next
			continue
		}
		s += " (" + w + ")"
		break
	}
	return s
}

func checkIsolationRegions(p *Prog, r *Result, rule string) {
	pkg := p.Pkg("interp")
	info := pkg.TypesInfo
	runnerT := lookupType(pkg, "Runner")
	if runnerT == nil {
		r.Fatalf("interp.Runner not found")
		return
	}
	rst := runnerT.Underlying().(*types.Struct)
	state := map[*types.Var]bool{}
	for _, name := range c27StateFields {
		found := false
		for i := 0; i < rst.NumFields(); i++ {
			if rst.Field(i).Name() == name {
				state[rst.Field(i)] = true
				found = true
			}
		}
		if !found {
			r.Undecided(rule, "Runner."+name+"#state field", token.NoPos, "the Runner field "+name+" that holds state the property lists no longer exists: the table of state fields must be re-read")
		}
	}
	subshellFn := lookupFunc(pkg, "Runner.subshell")
	subshellPub := lookupFunc(pkg, "Runner.Subshell")
	if subshellFn == nil {
		r.Fatalf("interp.Runner.subshell not found")
		return
	}
	g := buildRefGraph(p)
	byName := map[string][]*types.Func{}
	for fo := range g.decl {
		if fo.Type().(*types.Signature).Recv() != nil {
			byName[fo.Name()] = append(byName[fo.Name()], fo)
		}
	}
	impls := func(m *types.Func) []*types.Func {
		recv := m.Type().(*types.Signature).Recv()
		if recv == nil {
			return nil
		}
		ifc, ok := recv.Type().Underlying().(*types.Interface)
		if !ok {
			return nil
		}
		var out []*types.Func
		for _, fo := range byName[m.Name()] {
			rt := fo.Type().(*types.Signature).Recv().Type()
			if types.Implements(rt, ifc) || types.Implements(types.NewPointer(rt), ifc) {
				out = append(out, fo)
			}
		}
		sort.Slice(out, func(i, j int) bool { return funcObjKey(out[i]) < funcObjKey(out[j]) })
		return out
	}
	ea := &effectAnalysis{g: g, state: state, copyFns: map[*types.Func]bool{subshellFn: true}, w: map[effSlot]string{}, impls: impls, slotCache: map[*types.Func]map[types.Object]int{}}
	if subshellPub != nil {
		ea.copyFns[subshellPub] = true
	}
	// base: WriteEnviron.Set implementations write through their receiver
	if wi := lookupType(p.Pkg("expand"), "WriteEnviron"); wi != nil {
		if ifc, ok := wi.Underlying().(*types.Interface); ok {
			for _, fo := range byName["Set"] {
				rt := fo.Type().(*types.Signature).Recv().Type()
				if types.Implements(rt, ifc) || types.Implements(types.NewPointer(rt), ifc) {
					ea.w[effSlot{fo, -1}] = "implements expand.WriteEnviron.Set"
				}
			}
		}
	}
	ea.solve()

	// regions
	type region struct {
		name string
		fd   *ast.FuncDecl
		body ast.Node
	}
	var regions []region
	cfgT := lookupType(p.Pkg("expand"), "Config")
	syn := p.Pkg("syntax")
	subshellNode := lookupType(syn, "Subshell")
	pipeConst := syn.Types.Scope().Lookup("Pipe")
	stmtT := lookupType(syn, "Stmt")
	for _, fd := range p.AllFuncDecls("interp") {
		fd := fd
		ast.Inspect(fd.Body, func(n ast.Node) bool {
			switch x := n.(type) {
			case *ast.CompositeLit:
				if namedOf(info.TypeOf(x)) != cfgT {
					return true
				}
				for _, el := range x.Elts {
					kv, ok := el.(*ast.KeyValueExpr)
					if !ok {
						continue
					}
					k, _ := kv.Key.(*ast.Ident)
					if k == nil || (k.Name != "CmdSubst" && k.Name != "ProcSubst") {
						continue
					}
					if lit, ok := ast.Unparen(kv.Value).(*ast.FuncLit); ok {
						regions = append(regions, region{"expand.Config." + k.Name + " callback", fd, lit.Body})
					} else {
						r.Undecided(rule, funcKey("interp", fd)+"#expand.Config."+k.Name, kv.Pos(), "the callback is not a function literal; its body cannot be located")
					}
				}
			case *ast.TypeSwitchStmt:
				for _, s := range x.Body.List {
					cc := s.(*ast.CaseClause)
					for _, e := range cc.List {
						if pt, ok := info.TypeOf(e).(*types.Pointer); ok && namedOf(pt.Elem()) == subshellNode {
							regions = append(regions, region{"case *syntax.Subshell", fd, cc})
						}
					}
				}
			case *ast.SwitchStmt:
				for _, s := range x.Body.List {
					cc := s.(*ast.CaseClause)
					for _, e := range cc.List {
						if sel, ok := ast.Unparen(e).(*ast.SelectorExpr); ok && info.ObjectOf(sel.Sel) == pipeConst {
							regions = append(regions, region{"case syntax.Pipe", fd, cc})
						}
					}
				}
			case *ast.IfStmt:
				reads := false
				ast.Inspect(x.Cond, func(m ast.Node) bool {
					if sel, ok := m.(*ast.SelectorExpr); ok && sel.Sel.Name == "Background" {
						if fv := selectorField(info, sel); fv != nil {
							if t := info.TypeOf(sel.X); t != nil && namedOf(derefType(t)) == stmtT {
								reads = true
							}
						}
					}
					return true
				})
				// only a test that is true for background statements
				if reads && !isNegationOf(x.Cond, "Background") && len(nodeCalls(x.Body)) > 0 { // a body without calls only refuses (catShortcutArg)
					regions = append(regions, region{"if Stmt.Background", fd, x.Body})
				}
			}
			return true
		})
	}
	// a statement guarded by `stmt.Background` in an early return (catShortcutArg-style refusal) has an empty region
	byKind := map[string]int{}
	for _, rg := range regions {
		byKind[rg.name]++
	}
	for _, want := range []string{"expand.Config.CmdSubst callback", "expand.Config.ProcSubst callback", "case *syntax.Subshell", "case syntax.Pipe", "if Stmt.Background"} {
		if byKind[want] == 0 {
			r.Undecided(rule, "interp#"+want+" region", token.NoPos, "no "+want+" found in package interp: the place where this isolating construct is run cannot be located")
		}
	}
	hasEffect := map[*types.Func]bool{}
	for k := range ea.w {
		hasEffect[k.fn] = true
	}
	for _, rg := range regions {
		sl := ea.slots(info.Defs[rg.fd.Name].(*types.Func))
		n := 0
		seenKey := map[string]int{}
		ast.Inspect(rg.body, func(x ast.Node) bool {
			call, ok := x.(*ast.CallExpr)
			if !ok {
				return true
			}
			callee := calleeOf(info, call)
			if callee == nil {
				return true
			}
			callee = callee.Origin()
			if ea.copyFns[callee] {
				return true
			}
			// does it run anything that can change some shell at all (a copy included)?
			for f := range g.reachable(callee) {
				if hasEffect[f] {
					n++
					break
				}
			}
			targets := append([]*types.Func{callee}, impls(callee)...)
			for _, tg := range targets {
				var ks []effSlot
				for k := range ea.w {
					if k.fn == tg {
						ks = append(ks, k)
					}
				}
				sort.Slice(ks, func(i, j int) bool { return ks[i].idx < ks[j].idx })
				for _, k := range ks {
					var actual ast.Expr
					if k.idx == -1 {
						if sel, ok := ast.Unparen(call.Fun).(*ast.SelectorExpr); ok {
							actual = sel.X
						}
					} else if k.idx < len(call.Args) {
						actual = call.Args[k.idx]
					}
					if actual == nil {
						continue
					}
					roots := ea.roots(info, rg.fd.Body, actual, 0, map[types.Object]bool{})
					onParent := ""
					for o := range roots {
						if _, isParam := sl[o]; isParam {
							onParent = o.Name()
						}
					}
					key := fmt.Sprintf("%s#%s: %s.%s", funcKey("interp", rg.fd), rg.name, exprString(actual), callee.Name())
					seenKey[key]++
					if seenKey[key] > 1 {
						continue
					}
					r.Check(onParent == "", rule, key, call.Pos(),
						"what it can change is a copy made by subshell()",
						fmt.Sprintf("inside the %s region, %s acts on `%s`, which is rooted at the enclosing function's `%s` and not at a copy made by subshell(): %s. The isolated construct can change the parent shell", rg.name, callee.Name(), exprString(actual), onParent, ea.chain(k)))
				}
			}
			return true
		})
		if n == 0 {
			r.Undecided(rule, funcKey("interp", rg.fd)+"#"+rg.name+" runs nothing", rg.body.Pos(), "no state-changing call found in this region: the statements of the isolated construct are run somewhere this rule does not see")
		}
	}
}

func derefType(t types.Type) types.Type {
	if pt, ok := t.(*types.Pointer); ok {
		return pt.Elem()
	}
	return t
}

// isNegationOf reports whether cond is `!x.F` (possibly parenthesised) for the field name given.
func isNegationOf(cond ast.Expr, field string) bool {
	u, ok := ast.Unparen(cond).(*ast.UnaryExpr)
	if !ok || u.Op != token.NOT {
		return false
	}
	sel, ok := ast.Unparen(u.X).(*ast.SelectorExpr)
	return ok && sel.Sel.Name == field
}
