package main

import (
	"fmt"
	"go/ast"
	"go/token"
	"go/types"
	"sort"
)

// R27d: isolating constructs run their statements on a copy.
//
// Regions are found by what they are, not where they are:
//   - function literals stored in the CmdSubst / ProcSubst fields of an expand.Config literal,
//   - the clause for *syntax.Subshell in a type switch over syntax.Command,
//   - the clause of a switch over BinaryCmd.Op that lists syntax.Pipe,
//   - the body of an `if` whose condition reads Stmt.Background.
// Inside a region, a call that can change the shell state the property lists (variables, functions, aliases,
// options, directory, positional parameters) — transitively, over statically resolved calls and interface
// implementations — must not run on the parent runner: its receiver (or *Runner argument) must be a local whose every
// definition is a call of subshell()/Subshell().
var c27StateFields = []string{"writeEnv", "Vars", "Funcs", "alias", "opts", "Dir", "Params"}

func checkIsolationRegions(p *Prog, r *Result, rule string) {
	pkg := p.Pkg("interp")
	info := pkg.TypesInfo
	runnerT := lookupType(pkg, "Runner")
	if runnerT == nil {
		r.Fatalf("interp.Runner not found")
		return
	}
	rst := runnerT.Underlying().(*types.Struct)
	state := map[*types.Var]bool{}
	for _, name := range c27StateFields {
		found := false
		for i := 0; i < rst.NumFields(); i++ {
			if rst.Field(i).Name() == name {
				state[rst.Field(i)] = true
				found = true
			}
		}
		if !found {
			r.Undecided(rule, "Runner."+name+"#state field", token.NoPos, "the Runner field "+name+" that holds state the property lists no longer exists: the table of state fields must be re-read")
		}
	}
	isRunnerPtr := func(t types.Type) bool {
		pt, ok := t.(*types.Pointer)
		return ok && namedOf(pt.Elem()) == runnerT
	}

	g := buildRefGraph(p)
	// direct writers: methods that store into a state field through their receiver, or implement WriteEnviron.Set
	direct := map[*types.Func]string{}
	for fo, fd := range g.decl {
		if fd.Body == nil || fd.Recv == nil || len(fd.Recv.List) == 0 {
			continue
		}
		finfo := g.pkgOf[fo].TypesInfo
		sig := fo.Type().(*types.Signature)
		if fo.Name() == "Set" {
			if wi := lookupType(p.Pkg("expand"), "WriteEnviron"); wi != nil {
				if ifc, ok := wi.Underlying().(*types.Interface); ok && (types.Implements(sig.Recv().Type(), ifc) || types.Implements(types.NewPointer(sig.Recv().Type()), ifc)) {
					direct[fo] = "implements expand.WriteEnviron.Set"
					continue
				}
			}
		}
		if !isRunnerPtr(sig.Recv().Type()) || len(fd.Recv.List[0].Names) == 0 {
			continue
		}
		recvObj := finfo.Defs[fd.Recv.List[0].Names[0]]
		rootIsRecv := func(e ast.Expr) (*types.Var, bool) {
			for {
				switch x := ast.Unparen(e).(type) {
				case *ast.IndexExpr:
					e = x.X
					continue
				case *ast.StarExpr:
					e = x.X
					continue
				case *ast.SelectorExpr:
					if id, ok := ast.Unparen(x.X).(*ast.Ident); ok && finfo.ObjectOf(id) == recvObj {
						fv, _ := finfo.ObjectOf(x.Sel).(*types.Var)
						return fv, fv != nil
					}
					e = x.X
					continue
				}
				return nil, false
			}
		}
		ast.Inspect(fd.Body, func(n ast.Node) bool {
			switch x := n.(type) {
			case *ast.AssignStmt:
				for _, l := range x.Lhs {
					if fv, ok := rootIsRecv(l); ok && state[fv] {
						direct[fo] = "stores into Runner." + fv.Name()
					}
				}
			case *ast.IncDecStmt:
				if fv, ok := rootIsRecv(x.X); ok && state[fv] {
					direct[fo] = "stores into Runner." + fv.Name()
				}
			case *ast.CallExpr:
				if isBuiltinCall(finfo, x, "delete") || isBuiltinCall(finfo, x, "clear") {
					if fv, ok := rootIsRecv(x.Args[0]); ok && state[fv] {
						direct[fo] = "removes from Runner." + fv.Name()
					}
				}
			}
			return true
		})
	}
	// call edges that do not descend into stored function literals (those run when somebody calls them, and the
	// caller is judged then); immediately invoked, go'd, deferred and wg.Go'd literals are part of the function.
	callEdges := map[*types.Func]map[*types.Func]bool{}
	var ifaceImpls func(m *types.Func) []*types.Func
	{
		byName := map[string][]*types.Func{}
		for fo := range g.decl {
			if fo.Type().(*types.Signature).Recv() != nil {
				byName[fo.Name()] = append(byName[fo.Name()], fo)
			}
		}
		ifaceImpls = func(m *types.Func) []*types.Func {
			recv := m.Type().(*types.Signature).Recv()
			if recv == nil {
				return nil
			}
			ifc, ok := recv.Type().Underlying().(*types.Interface)
			if !ok {
				return nil
			}
			var out []*types.Func
			for _, fo := range byName[m.Name()] {
				rt := fo.Type().(*types.Signature).Recv().Type()
				if types.Implements(rt, ifc) || types.Implements(types.NewPointer(rt), ifc) {
					out = append(out, fo)
				}
			}
			return out
		}
	}
	// Function literals stored into a struct field (composite-literal value, or assignment to a selector) are
	// callbacks somebody else runs later: their calls are not the enclosing function's. Every other literal
	// (returned iterator, local closure, immediately invoked, go/defer, argument) is part of the function.
	var collect func(finfo *types.Info, n ast.Node, set map[*types.Func]bool)
	collect = func(finfo *types.Info, n ast.Node, set map[*types.Func]bool) {
		stored := map[*ast.FuncLit]bool{}
		ast.Inspect(n, func(x ast.Node) bool {
			switch c := x.(type) {
			case *ast.KeyValueExpr:
				if lit, ok := ast.Unparen(c.Value).(*ast.FuncLit); ok {
					stored[lit] = true
				}
			case *ast.AssignStmt:
				for i, l := range c.Lhs {
					if _, isSel := ast.Unparen(l).(*ast.SelectorExpr); isSel && i < len(c.Rhs) {
						if lit, ok := ast.Unparen(c.Rhs[i]).(*ast.FuncLit); ok {
							stored[lit] = true
						}
					}
				}
			}
			return true
		})
		ast.Inspect(n, func(x ast.Node) bool {
			switch c := x.(type) {
			case *ast.FuncLit:
				return !stored[c]
			case *ast.CallExpr:
				if callee := calleeOf(finfo, c); callee != nil {
					callee = callee.Origin()
					set[callee] = true
					for _, im := range ifaceImpls(callee) {
						set[im] = true
					}
				}
			}
			return true
		})
	}
	for fo, fd := range g.decl {
		if fd.Body == nil {
			continue
		}
		set := map[*types.Func]bool{}
		collect(g.pkgOf[fo].TypesInfo, fd.Body, set)
		callEdges[fo] = set
	}
	// writers: least fixpoint
	why := map[*types.Func]string{}
	for fo, w := range direct {
		why[fo] = w
	}
	for changed := true; changed; { // level by level, so that the recorded chain is a shortest one and does not depend on map order
		changed = false
		next := map[*types.Func]string{}
		for fo, set := range callEdges {
			if _, ok := why[fo]; ok {
				continue
			}
			var names []*types.Func
			for c := range set {
				if _, ok := why[c]; ok {
					names = append(names, c)
				}
			}
			if len(names) > 0 {
				sort.Slice(names, func(i, j int) bool { return funcObjKey(names[i]) < funcObjKey(names[j]) })
				next[fo] = "calls " + funcObjKey(names[0])
			}
		}
		for fo, w := range next {
			why[fo] = w
			changed = true
		}
	}
	chain := func(fo *types.Func) string {
		s := funcObjKey(fo)
		seen := map[*types.Func]bool{}
		for !seen[fo] {
			seen[fo] = true
			w := why[fo]
			if len(w) > 6 && w[:6] == "calls " {
				var next *types.Func
				for c := range callEdges[fo] {
					if funcObjKey(c) == w[6:] {
						next = c
					}
				}
				if next == nil {
					break
				}
				s += " → " + funcObjKey(next)
				fo = next
				continue
			}
			s += " (" + w + ")"
			break
		}
		return s
	}
	subshellFn := lookupFunc(pkg, "Runner.subshell")
	subshellPub := lookupFunc(pkg, "Runner.Subshell")
	if subshellFn == nil {
		r.Fatalf("interp.Runner.subshell not found")
		return
	}

	// regions
	type region struct {
		name string
		fd   *ast.FuncDecl
		body ast.Node
	}
	var regions []region
	cfgT := lookupType(p.Pkg("expand"), "Config")
	syn := p.Pkg("syntax")
	subshellNode := lookupType(syn, "Subshell")
	pipeConst := syn.Types.Scope().Lookup("Pipe")
	stmtT := lookupType(syn, "Stmt")
	for _, fd := range p.AllFuncDecls("interp") {
		fd := fd
		ast.Inspect(fd.Body, func(n ast.Node) bool {
			switch x := n.(type) {
			case *ast.CompositeLit:
				if namedOf(info.TypeOf(x)) != cfgT {
					return true
				}
				for _, el := range x.Elts {
					kv, ok := el.(*ast.KeyValueExpr)
					if !ok {
						continue
					}
					k, _ := kv.Key.(*ast.Ident)
					if k == nil || (k.Name != "CmdSubst" && k.Name != "ProcSubst") {
						continue
					}
					if lit, ok := ast.Unparen(kv.Value).(*ast.FuncLit); ok {
						regions = append(regions, region{"expand.Config." + k.Name + " callback", fd, lit.Body})
					} else {
						r.Undecided(rule, funcKey("interp", fd)+"#expand.Config."+k.Name, kv.Pos(), "the callback is not a function literal; its body cannot be located")
					}
				}
			case *ast.TypeSwitchStmt:
				for _, s := range x.Body.List {
					cc := s.(*ast.CaseClause)
					for _, e := range cc.List {
						if pt, ok := info.TypeOf(e).(*types.Pointer); ok && namedOf(pt.Elem()) == subshellNode {
							regions = append(regions, region{"case *syntax.Subshell", fd, cc})
						}
					}
				}
			case *ast.SwitchStmt:
				for _, s := range x.Body.List {
					cc := s.(*ast.CaseClause)
					for _, e := range cc.List {
						if sel, ok := ast.Unparen(e).(*ast.SelectorExpr); ok && info.ObjectOf(sel.Sel) == pipeConst {
							regions = append(regions, region{"case syntax.Pipe", fd, cc})
						}
					}
				}
			case *ast.IfStmt:
				reads := false
				ast.Inspect(x.Cond, func(m ast.Node) bool {
					if sel, ok := m.(*ast.SelectorExpr); ok && sel.Sel.Name == "Background" {
						if fv := selectorField(info, sel); fv != nil {
							if t := info.TypeOf(sel.X); t != nil && namedOf(derefType(t)) == stmtT {
								reads = true
							}
						}
					}
					return true
				})
				// only a test that is true for background statements
				if reads && !isNegationOf(x.Cond, "Background") && len(nodeCalls(x.Body)) > 0 { // a body without calls only refuses (catShortcutArg)
					regions = append(regions, region{"if Stmt.Background", fd, x.Body})
				}
			}
			return true
		})
	}
	// a statement guarded by `stmt.Background` in an early return (catShortcutArg-style refusal) has an empty region
	byKind := map[string]int{}
	for _, rg := range regions {
		byKind[rg.name]++
	}
	for _, want := range []string{"expand.Config.CmdSubst callback", "expand.Config.ProcSubst callback", "case *syntax.Subshell", "case syntax.Pipe", "if Stmt.Background"} {
		if byKind[want] == 0 {
			r.Undecided(rule, "interp#"+want+" region", token.NoPos, "no "+want+" found in package interp: the place where this isolating construct is run cannot be located")
		}
	}

	for _, rg := range regions {
		var recvObj types.Object
		if rg.fd.Recv != nil && len(rg.fd.Recv.List) > 0 && len(rg.fd.Recv.List[0].Names) > 0 {
			recvObj = info.Defs[rg.fd.Recv.List[0].Names[0]]
		}
		// locals that are only ever defined from subshell()
		isCopy := func(obj types.Object) bool {
			if obj == nil || obj == recvObj {
				return false
			}
			defs, ok := 0, true
			ast.Inspect(rg.fd.Body, func(n ast.Node) bool {
				as, isAs := n.(*ast.AssignStmt)
				if !isAs {
					return true
				}
				for i, l := range as.Lhs {
					id, isID := l.(*ast.Ident)
					if !isID || info.ObjectOf(id) != obj {
						continue
					}
					defs++
					if len(as.Rhs) != len(as.Lhs) {
						ok = false
						continue
					}
					call, isCall := ast.Unparen(as.Rhs[i]).(*ast.CallExpr)
					if !isCall {
						ok = false
						continue
					}
					c := calleeOf(info, call)
					if c == nil || (c != subshellFn && c != subshellPub) {
						ok = false
					}
				}
				return true
			})
			return defs > 0 && ok
		}
		rootObj := func(e ast.Expr) types.Object {
			for {
				switch x := ast.Unparen(e).(type) {
				case *ast.SelectorExpr:
					e = x.X
					continue
				case *ast.Ident:
					return info.ObjectOf(x)
				case *ast.UnaryExpr:
					e = x.X
					continue
				}
				return nil
			}
		}
		n := 0
		ast.Inspect(rg.body, func(x ast.Node) bool {
			call, ok := x.(*ast.CallExpr)
			if !ok {
				return true
			}
			callee := calleeOf(info, call)
			if callee == nil {
				return true
			}
			callee = callee.Origin()
			if _, isWriter := why[callee]; !isWriter || callee == subshellFn || callee == subshellPub {
				return true
			}
			// which runner does it act on?
			var subjects []ast.Expr
			if sel, ok := ast.Unparen(call.Fun).(*ast.SelectorExpr); ok && isRunnerPtr(info.TypeOf(sel.X)) {
				subjects = append(subjects, sel.X)
			}
			for _, a := range call.Args {
				if t := info.TypeOf(a); t != nil && isRunnerPtr(t) {
					subjects = append(subjects, a)
				}
			}
			for _, s := range subjects {
				n++
				obj := rootObj(s)
				key := fmt.Sprintf("%s#%s: %s.%s", funcKey("interp", rg.fd), rg.name, exprString(s), callee.Name())
				r.Check(isCopy(obj), rule, key, call.Pos(),
					"runs on a runner obtained from subshell()",
					fmt.Sprintf("inside the %s region, %s runs on `%s`, which is not a copy made by subshell(): %s. The isolated construct can change the parent shell", rg.name, callee.Name(), exprString(s), chain(callee)))
			}
			return true
		})
		if n == 0 {
			r.Undecided(rule, funcKey("interp", rg.fd)+"#"+rg.name+" runs nothing", rg.body.Pos(), "no state-changing call found in this region: the statements of the isolated construct are run somewhere this rule does not see")
		}
	}
}

func derefType(t types.Type) types.Type {
	if pt, ok := t.(*types.Pointer); ok {
		return pt.Elem()
	}
	return t
}

// isNegationOf reports whether cond is `!x.F` (possibly parenthesised) for the field name given.
func isNegationOf(cond ast.Expr, field string) bool {
	u, ok := ast.Unparen(cond).(*ast.UnaryExpr)
	if !ok || u.Op != token.NOT {
		return false
	}
	sel, ok := ast.Unparen(u.X).(*ast.SelectorExpr)
	return ok && sel.Sel.Name == field
}
