package main

import (
	"fmt"
	"go/ast"
	"go/constant"
	"go/token"
	"go/types"
	"sort"
	"strings"

	"golang.org/x/tools/go/packages"
)

func init() {
	register(&Property{
		ID:  "C06",
		Run: runC06,
		Decided: "every explicit panic and unchecked type assertion in packages syntax and syntax/typedjson is unreachable by a fact the checker establishes: token functions ending in " +
			"panic(\"unreachable\") are only called with runes their switch handles (R06a); type switches whose default panics cover every parser-constructible implementor, and the JSON encoder " +
			"handles the kind of every field reachable from a node (R06b); the two unchecked assertions are dominated by the tests that make them safe (R06c); every other panic is an enumerated " +
			"precondition of an option or of tree shape (R06d). Against hangs and buffer faults: fill() is only called with a constant-bounded number of unread bytes, so a read into a full " +
			"buffer (which would spin) cannot happen (R06e); backward offsets into the read buffer are guarded against underflow (R06f); every lexer/parser loop consumes input, reports an error " +
			"or leaves on each cycle (R06h). A reused Parser/Printer starts from reset state (R06g, shared with C08), which the index and nil safety of the per-parse bookkeeping relies on. The read buffer is indexed at the cursor only past a length test or a non-zero fill(), whose contract (cursor at the start of a non-empty buffer) is checked in fill (R06k).",
		NotDecided:  "general index, nil and slice-bounds safety of the lexer and printer; running time beyond `each loop cycle consumes input`; trees not produced by the parser (typed nil pointers inside interfaces).",
		Assumptions: []string{"readers follow the io.Reader contract for non-empty buffers (a reader that keeps returning 0, nil makes fill() retry forever)", "option functions are called with documented arguments (Variant(LangAuto), StopAt longer than four bytes panic by design)"},
		Controls:    c06Controls,
	})
}

func runC06(p *Prog, r *Result) {
	pkg := p.Pkg("syntax")
	tj := p.Pkg("syntax/typedjson")
	if pkg == nil || tj == nil {
		r.Fatalf("packages syntax / syntax/typedjson not loaded")
		return
	}
	r.Rule("R06a", "token functions whose switch falls through to panic(\"unreachable\"): every call site admits only runes the switch has a case for", 7)
	r.Rule("R06b", "type switches with a panicking default cover every parser-constructible implementor; typedjson handles every reachable field kind", 40)
	r.Rule("R06c", "unchecked type assertions are dominated by the test or invariant that makes them safe", 2)
	r.Rule("R06d", "every other panic call is an enumerated precondition (option argument, tree shape)", 6)
	r.Rule("R06e", "every fill() call is guarded so that at most a constant number of unread bytes remain (a read into a full buffer would spin)", 5)
	r.Rule("R06f", "backward offsets into the read buffer (p.bsp - x) are guarded by p.bsp >= x", 2)
	r.Rule("R06g", "reset coverage of Parser and Printer (shared with C08 R08a)", 60)
	r.Rule("R06h", "every loop in the lexer and parser consumes input, reports an error or leaves on every cycle", 26)

	classified := map[token.Pos]string{} // panic call -> rule that covers it
	checkTokenFuncs(p, r, pkg, classified)
	checkPanickingDefaults(p, r, pkg, tj, classified)
	checkUncheckedAsserts(p, r, pkg, "syntax")
	checkUncheckedAsserts(p, r, tj, "syntax/typedjson")
	checkPanicInventory(p, r, []*packages.Package{pkg, tj}, []string{"syntax", "syntax/typedjson"}, classified)
	checkFillGuards(p, r, pkg)
	checkBackwardOffsets(p, r, pkg)
	// R06g
	{
		sub := newResult(r.Prop, r.prog)
		ps, pr := resetSpecs()
		checkResetSpec(p, sub, pkg, ps)
		checkResetSpec(p, sub, pkg, pr)
		for _, o := range sub.Obls {
			if o.Rule == "R08a" {
				o.Rule = "R06g"
				r.Obls = append(r.Obls, o)
			}
		}
		r.Fatal = append(r.Fatal, sub.Fatal...)
	}
	checkLoopProgress(p, r, pkg)
	r.Rule("R06j", "iterator literals never call yield after a point where it may have returned false without testing a stopped flag", 3)
	checkIteratorProtocol(p, r, pkg, "syntax", "R06j")
	r.Rule("R06i", "indexes at a constant position or constant offset on slices and strings in package syntax are dominated by a test of that value's length, or are reasoned exceptions", 60)
	checkConstIndexes(p, r, pkg, "syntax", "R06i", c06IndexExceptions)
	r.Rule("R06l", "an error stored without a token (fill) is turned into _EOF by the epilogue of both token producers on every fall-through path — the premise of R06h's `reports an error` exits", 2)
	checkErrorReachesToken(p, r, pkg, "R06l")
	r.Rule("R06m", "every recursion cycle among the parser's methods compares a depth counter with a limit (unbounded nesting ends in a fatal stack overflow); no function of the lexer calls itself (repetition is not nesting)", 16)
	checkRecursionBounded(p, r, pkg, "R06m")
	r.Rule("R06n", "every field that Walk, Pos or End dereferences without a nil test holds a value that is not nil wherever package syntax builds the node, unless an error was reported by then", 30)
	checkMandatoryFieldsSet(p, r, pkg, "R06n", c06NilExceptions)
	r.Rule("R06o", "the here-document body reader reads input only with a body pending: a parse over a pipe or terminal does not wait for a byte it has no use for (shared with C08 R08h)", 6)
	checkBodyReaderNeedsBody(p, r, pkg, "R06o")
	r.Rule("R06k", "the read buffer is indexed at the cursor only past a test of the cursor against its length or past a non-zero fill(); fill stores the cursor only as 0 (or under a length test)", 5)
	checkCursorContract(p, r, pkg, "R06k")
}

// c06NilExceptions: obligation -> why the value is not nil there.
var c06NilExceptions = map[string]string{}

// c06IndexExceptions: function#indexed value -> the invariant relied upon. Reasoned, not proven; a triage run of
// 342 420 parses of prefixes and one-byte mutations (tools/triage) found no panic at any of them after the fixes of §4.
var c06IndexExceptions = map[string]string{
	"syntax.(BraceExp).Pos#b.Elems":               "a BraceExp is only built by SplitBraces, which pushes an element when it opens the brace",
	"syntax.SplitBraces#cur.Elems":                "cur is the innermost open brace, which received its first element when it was opened",
	"syntax.(CallExpr).Pos#c.Args":                "the parser builds a CallExpr only once it has an assignment or a word; with no assignments there is a first word",
	"syntax.(CallExpr).End#c.Assigns":             "reached only when there are no words, and then there is at least one assignment",
	"syntax.(LetClause).End#l.Exprs":              "built non-empty `LetClause.Exprs`: letClause appends an expression or reports \"let must be followed by an expression\" on every path",
	"syntax.(Word).Pos#w.Parts":                   "the parser never builds a word without parts (recovery fills in a literal at the recovered position)",
	"syntax.(Word).End#w.Parts":                   "as for Word.Pos",
	"syntax.(Printer).wordParts#wps":              "only under `!quoted`: unquoted calls pass the parts of a word, which the parser never builds empty (see Word.Pos); quoted calls can pass the parts of an empty \"\", and the short-circuit keeps the index away from those",
	"syntax.(Printer).decLevel#p.levelIncs":       "decLevel pops what the matching incLevel pushed (paired calls in every printer function)",
	"syntax.(Parser).advanceLitHdoc#p.hdocStops":  "runs only while a here-document body is being read, after doHeredocs pushed its stop word",
	"syntax.(Parser).quotedHdocWord#p.hdocStops":  "as for advanceLitHdoc",
	"syntax.(Parser).doHeredocs#p.hdocStops":      "indexes the stop word it appended a few lines above",
	"syntax.(Parser).advanceLitNone#p.litBs":      "newLit(r) started the literal with the current rune before the loop",
	"syntax.(Parser).isLitRedir#lit":              "recogniser agreement: called when a redirection operator follows at least one literal byte; a literal begins with `<` only as a zsh numeric range, which next() and advanceLitNone recognise under the same conditions",
	"syntax.(Parser).doRedirect#r.N.Value":        "getLit returns literal tokens, which are never empty",
	"syntax.(Parser).hasValidIdent#p.val":         "eqlOffs is the offset of '=' inside the current literal p.val: set by advanceLitNone for that token and cleared by next()",
	"syntax.(Parser).getAssign#p.val":             "as for hasValidIdent",
}

// ---------------------------------------------------------------- R06a

// switchOnParam returns the top-level `switch param {` of a function.
func switchOnParam(info *types.Info, fd *ast.FuncDecl) (*ast.SwitchStmt, types.Object) {
	if fd.Type.Params == nil {
		return nil, nil
	}
	params := map[types.Object]bool{}
	for _, f := range fd.Type.Params.List {
		for _, nm := range f.Names {
			params[info.Defs[nm]] = true
		}
	}
	for _, st := range fd.Body.List {
		sw, ok := st.(*ast.SwitchStmt)
		if !ok || sw.Tag == nil {
			continue
		}
		if id, ok := ast.Unparen(sw.Tag).(*ast.Ident); ok && params[info.ObjectOf(id)] {
			return sw, info.ObjectOf(id)
		}
	}
	return nil, nil
}

func caseRunes(info *types.Info, sw *ast.SwitchStmt) (map[int64]bool, bool) {
	out := map[int64]bool{}
	for _, c := range sw.Body.List {
		cc := c.(*ast.CaseClause)
		for _, e := range cc.List {
			tv, ok := info.Types[e]
			if !ok || tv.Value == nil {
				return nil, false
			}
			v, ok := constant.Int64Val(constant.ToInt(tv.Value))
			if !ok {
				return nil, false
			}
			out[v] = true
		}
	}
	return out, true
}

func runeSet64String(s map[int64]bool) string {
	var ks []int64
	for k := range s {
		ks = append(ks, k)
	}
	sort.Slice(ks, func(i, j int) bool { return ks[i] < ks[j] })
	var parts []string
	for _, k := range ks {
		if k >= 32 && k < 127 {
			parts = append(parts, fmt.Sprintf("%q", rune(k)))
		} else {
			parts = append(parts, fmt.Sprintf("%#x", k))
		}
	}
	return strings.Join(parts, " ")
}

func endsInPanic(info *types.Info, fd *ast.FuncDecl) *ast.CallExpr {
	if len(fd.Body.List) == 0 {
		return nil
	}
	es, ok := fd.Body.List[len(fd.Body.List)-1].(*ast.ExprStmt)
	if !ok {
		return nil
	}
	c, ok := es.X.(*ast.CallExpr)
	if !ok || !isBuiltinCall(info, c, "panic") {
		return nil
	}
	return c
}

// predicateSet: a function `func P(r rune) bool { switch r { case …: return true }; return false }`.
func predicateSet(info *types.Info, fd *ast.FuncDecl) (map[int64]bool, bool) {
	if fd == nil || fd.Body == nil || len(fd.Body.List) != 2 {
		return nil, false
	}
	sw, _ := switchOnParam(info, fd)
	if sw == nil || fd.Body.List[0] != ast.Stmt(sw) {
		return nil, false
	}
	for _, c := range sw.Body.List {
		cc := c.(*ast.CaseClause)
		if cc.List == nil || len(cc.Body) != 1 {
			return nil, false
		}
		rs, ok := cc.Body[0].(*ast.ReturnStmt)
		if !ok || len(rs.Results) != 1 || exprString(rs.Results[0]) != "true" {
			return nil, false
		}
	}
	rs, ok := fd.Body.List[1].(*ast.ReturnStmt)
	if !ok || len(rs.Results) != 1 || exprString(rs.Results[0]) != "false" {
		return nil, false
	}
	return caseRunes(info, sw)
}

func checkTokenFuncs(p *Prog, r *Result, pkg *packages.Package, classified map[token.Pos]string) {
	info := pkg.TypesInfo
	type tokFn struct {
		fd    *ast.FuncDecl
		cases map[int64]bool
	}
	tokFns := map[*types.Func]*tokFn{}
	decls := map[*types.Func]*ast.FuncDecl{}
	for _, fd := range p.AllFuncDecls("syntax") {
		fo, _ := info.Defs[fd.Name].(*types.Func)
		if fo == nil {
			continue
		}
		decls[fo] = fd
		pc := endsInPanic(info, fd)
		if pc == nil {
			continue
		}
		sw, _ := switchOnParam(info, fd)
		if sw == nil {
			continue
		}
		cases, ok := caseRunes(info, sw)
		key := funcKey("syntax", fd) + "#falls through to panic only when no case matched"
		if !ok {
			r.Undecided("R06a", key, fd.Pos(), "case list is not constant")
			continue
		}
		// the panic is reachable only through the all-cases-failed edge of that switch
		g := NewFGraph(info, fd.Body, nil)
		pblk, _ := g.BlockOf(fd.Body.List[len(fd.Body.List)-1])
		okShape := pblk != nil && underEdges(g, pblk, func(e *FEdge) bool { return e.Default && e.Tag == sw.Tag })
		hasDefault := false
		for _, c := range sw.Body.List {
			if c.(*ast.CaseClause).List == nil {
				hasDefault = true
			}
		}
		r.Check(okShape && !hasDefault, "R06a", key, pc.Pos(), fmt.Sprintf("%d case runes; no clause falls out of the switch", len(cases)),
			"some case clause of the switch can fall through to the panic: a rune the switch does handle still crashes the parser")
		tokFns[fo] = &tokFn{fd, cases}
		classified[pc.Pos()] = "R06a"
	}
	if len(tokFns) == 0 {
		r.Fatalf("no token function ending in panic found (regToken, dqToken, arithmToken)")
		return
	}
	// call sites
	for _, fd := range p.AllFuncDecls("syntax") {
		var stack []ast.Node
		ast.Inspect(fd.Body, func(n ast.Node) bool {
			if n == nil {
				stack = stack[:len(stack)-1]
				return true
			}
			stack = append(stack, n)
			call, ok := n.(*ast.CallExpr)
			if !ok {
				return true
			}
			tf := tokFns[calleeOf(info, call)]
			if tf == nil || len(call.Args) != 1 {
				return true
			}
			key := fmt.Sprintf("%s#calls %s", funcKey("syntax", fd), tf.fd.Name.Name)
			argID, ok := ast.Unparen(call.Args[0]).(*ast.Ident)
			if !ok {
				r.Undecided("R06a", key, call.Pos(), "argument is not a plain variable")
				return true
			}
			argObj := info.ObjectOf(argID)
			// innermost enclosing case clause that constrains argObj
			var admitted map[int64]bool
			how := ""
			for i := len(stack) - 1; i >= 0 && admitted == nil; i-- {
				cc, ok := stack[i].(*ast.CaseClause)
				if !ok || i == 0 {
					continue
				}
				// the switch owning this clause
				var sw *ast.SwitchStmt
				for j := i - 1; j >= 0; j-- {
					if s, ok := stack[j].(*ast.SwitchStmt); ok {
						sw = s
						break
					}
				}
				if sw == nil || cc.List == nil {
					continue
				}
				if sw.Tag != nil {
					if id, ok := ast.Unparen(sw.Tag).(*ast.Ident); ok && info.ObjectOf(id) == argObj {
						set := map[int64]bool{}
						okc := true
						for _, e := range cc.List {
							tv := info.Types[e]
							if tv.Value == nil {
								okc = false
								break
							}
							v, _ := constant.Int64Val(constant.ToInt(tv.Value))
							set[v] = true
						}
						if okc {
							admitted, how = set, "enclosing case list"
						}
					}
					continue
				}
				// switch { case A && P(r): … }
				if len(cc.List) == 1 {
					for _, cj := range conjuncts(cc.List[0]) {
						pc, ok := ast.Unparen(cj).(*ast.CallExpr)
						if !ok || len(pc.Args) != 1 {
							continue
						}
						if id, ok := ast.Unparen(pc.Args[0]).(*ast.Ident); !ok || info.ObjectOf(id) != argObj {
							continue
						}
						if set, ok := predicateSet(info, decls[calleeOf(info, pc)]); ok {
							admitted, how = set, "predicate "+calleeOf(info, pc).Name()
						}
					}
				}
				// the variable must not be reassigned between the guard and the call
				if admitted != nil {
					reassigned := false
					for _, st := range cc.Body {
						if st.Pos() > call.Pos() {
							break
						}
						ast.Inspect(st, func(m ast.Node) bool {
							if as, ok := m.(*ast.AssignStmt); ok && as.Pos() < call.Pos() {
								for _, l := range as.Lhs {
									if id, ok := l.(*ast.Ident); ok && info.ObjectOf(id) == argObj {
										reassigned = true
									}
								}
							}
							return true
						})
					}
					if reassigned {
						admitted = nil
						how = "reassigned"
					}
				}
			}
			if admitted == nil {
				r.Undecided("R06a", key, call.Pos(), "no enclosing case list or rune predicate constrains the argument ("+how+")")
				return true
			}
			missing := map[int64]bool{}
			for v := range admitted {
				if !tf.cases[v] {
					missing[v] = true
				}
			}
			r.Check(len(missing) == 0, "R06a", key, call.Pos(), fmt.Sprintf("%s admits %d runes, all handled", how, len(admitted)),
				fmt.Sprintf("%s admits {%s}, which %s has no case for: that input reaches panic(\"unreachable\")", how, runeSet64String(missing), tf.fd.Name.Name))
			return true
		})
	}
}

// ---------------------------------------------------------------- R06b

func checkPanickingDefaults(p *Prog, r *Result, pkg, tj *packages.Package, classified map[token.Pos]string) {
	g := buildRefGraph(p)
	reach := parserReach(p, g)
	for _, rel := range []string{"syntax", "syntax/typedjson"} {
		pk := p.Pkg(rel)
		info := pk.TypesInfo
		for _, fd := range p.AllFuncDecls(rel) {
			ast.Inspect(fd.Body, func(n ast.Node) bool {
				ts, ok := n.(*ast.TypeSwitchStmt)
				if !ok {
					return true
				}
				sc := typeSwitchCases(info, ts)
				var def *ast.CaseClause
				for _, c := range ts.Body.List {
					if cc := c.(*ast.CaseClause); cc.List == nil {
						def = cc
					}
				}
				if def == nil || !clausePanics(info, def) {
					return true
				}
				ast.Inspect(def, func(m ast.Node) bool {
					if c, ok := m.(*ast.CallExpr); ok && isBuiltinCall(info, c, "panic") {
						classified[c.Pos()] = "R06b"
					}
					return true
				})
				tag := namedOf(typeSwitchTag(info, ts))
				if tag == nil || tag.Obj().Pkg() != pkg.Types {
					r.Undecided("R06b", funcKey(rel, fd)+"#type switch with panicking default", ts.Pos(), "tag is not a syntax interface")
					return true
				}
				for _, n := range sealed(pkg, tag.Obj().Name()) {
					name := n.Obj().Name()
					key := fmt.Sprintf("%s#switch %s/case *%s", funcKey(rel, fd), tag.Obj().Name(), name)
					if _, ok := sc.Clauses[name]; ok {
						r.OK("R06b", key, ts.Pos(), "case present")
						continue
					}
					// covered through an interface case (e.g. case Command:)?
					covered := false
					for cname := range sc.Clauses {
						if it := lookupType(pkg, cname); it != nil {
							if ifc, ok := it.Underlying().(*types.Interface); ok && (types.Implements(types.NewPointer(n), ifc) || types.Implements(n, ifc)) {
								covered = true
							}
						}
					}
					if covered {
						r.OK("R06b", key, ts.Pos(), "covered by an interface case")
						continue
					}
					cons := parserConstructible(g, reach, n)
					r.Check(len(cons) == 0, "R06b", key, ts.Pos(), "no case, but not constructible from Parser methods",
						fmt.Sprintf("node type %s is built by %s but the switch has no case for it: its default panics", name, strings.Join(cons, ", ")))
				}
				return true
			})
		}
	}
	// typedjson kinds: reuse C15's R15b
	sub := newResult(r.Prop, r.prog)
	runC15(p, sub)
	n := 0
	for _, o := range sub.Obls {
		if o.Rule == "R15b" {
			o.Rule = "R06b"
			o.Key = "typedjson kinds: " + o.Key
			r.Obls = append(r.Obls, o)
			n++
		}
	}
	if n == 0 {
		r.Fatalf("R15b produced no obligations for the encoder's kind switch")
	}
	// the kind switch's panicking default
	for _, fd := range p.AllFuncDecls("syntax/typedjson") {
		info := tj.TypesInfo
		ast.Inspect(fd.Body, func(n ast.Node) bool {
			sw, ok := n.(*ast.SwitchStmt)
			if !ok || sw.Tag == nil {
				return true
			}
			for _, c := range sw.Body.List {
				cc := c.(*ast.CaseClause)
				if cc.List == nil && clausePanics(info, cc) && strings.Contains(exprString(sw.Tag), "Kind()") {
					ast.Inspect(cc, func(m ast.Node) bool {
						if pc, ok := m.(*ast.CallExpr); ok && isBuiltinCall(info, pc, "panic") {
							classified[pc.Pos()] = "R06b"
						}
						return true
					})
				}
			}
			return true
		})
	}
}

// ---------------------------------------------------------------- R06c

func checkUncheckedAsserts(p *Prog, r *Result, pkg *packages.Package, rel string) {
	for _, fd := range p.AllFuncDecls(rel) {
		// comma-ok forms and type switches are safe
		safe := map[*ast.TypeAssertExpr]bool{}
		ast.Inspect(fd.Body, func(n ast.Node) bool {
			switch x := n.(type) {
			case *ast.AssignStmt:
				if len(x.Lhs) == 2 && len(x.Rhs) == 1 {
					if ta, ok := ast.Unparen(x.Rhs[0]).(*ast.TypeAssertExpr); ok {
						safe[ta] = true
					}
				}
			case *ast.ValueSpec:
				if len(x.Names) == 2 && len(x.Values) == 1 {
					if ta, ok := ast.Unparen(x.Values[0]).(*ast.TypeAssertExpr); ok {
						safe[ta] = true
					}
				}
			case *ast.TypeSwitchStmt:
				ast.Inspect(x.Assign, func(m ast.Node) bool {
					if ta, ok := m.(*ast.TypeAssertExpr); ok {
						safe[ta] = true
					}
					return true
				})
			}
			return true
		})
		ast.Inspect(fd.Body, func(n ast.Node) bool {
			ta, ok := n.(*ast.TypeAssertExpr)
			if !ok || safe[ta] || ta.Type == nil {
				return true
			}
			key := fmt.Sprintf("%s#%s", funcKey(rel, fd), exprString(ta))
			if why, ok := assertByFieldInvariant(p, pkg, fd, ta); ok {
				r.OK("R06c", key, ta.Pos(), why)
			} else if why2, ok2 := assertByReflectTag(pkg, fd, ta); ok2 {
				r.OK("R06c", key, ta.Pos(), why2)
			} else if why3, ok3 := assertByPoolInvariant(p, pkg, rel, ta); ok3 {
				r.OK("R06c", key, ta.Pos(), why3)
			} else {
				r.Bad("R06c", key, ta.Pos(), "type assertion without comma-ok and no dominating test or field invariant establishes the dynamic type ("+why+"; "+why2+"): a value of another type panics")
			}
			return true
		})
	}
}

// assertByFieldInvariant handles `x.F.(T)` under `!x.B`, where every store of F
// with a static type other than T shares its block with `x.B = true`, and every
// store `x.B = false` shares its block with a store of F of static type T.
func assertByFieldInvariant(p *Prog, pkg *packages.Package, fd *ast.FuncDecl, ta *ast.TypeAssertExpr) (string, bool) {
	info := pkg.TypesInfo
	fv := selectorField(info, ta.X)
	if fv == nil {
		return "asserted expression is not a struct field", false
	}
	want := info.TypeOf(ta.Type)
	// dominating condition: the assertion lies inside `if … && !x.B {` / `if x.B == false`
	var flag *types.Var
	for _, ec := range enclosingCondsIn(fd.Body, ta) {
		for _, cj := range conjuncts(ec.cond) {
			if ue, ok := ast.Unparen(cj).(*ast.UnaryExpr); ok && ue.Op == token.NOT && ec.positive {
				if f := selectorField(info, ue.X); f != nil {
					if b, ok := f.Type().Underlying().(*types.Basic); ok && b.Kind() == types.Bool {
						flag = f
					}
				}
			}
		}
	}
	if flag == nil {
		return "no enclosing `!flag` condition", false
	}
	owner := namedOf(info.TypeOf(ast.Unparen(ta.X).(*ast.SelectorExpr).X))
	if owner == nil {
		return "owner type not found", false
	}
	// Literals stored straight into an unexported field are private objects: callers can only
	// hand an option a value they got from the constructor, so the invariant is about those.
	privateLits := map[*ast.CompositeLit]bool{}
	nPrivate := 0
	for _, f := range pkg.Syntax {
		ast.Inspect(f, func(n ast.Node) bool {
			as, ok := n.(*ast.AssignStmt)
			if !ok || len(as.Lhs) != len(as.Rhs) {
				return true
			}
			for i, rh := range as.Rhs {
				e := ast.Unparen(rh)
				if ue, ok := e.(*ast.UnaryExpr); ok && ue.Op == token.AND {
					e = ast.Unparen(ue.X)
				}
				cl, ok := e.(*ast.CompositeLit)
				if !ok || namedOf(info.TypeOf(cl)) != owner {
					continue
				}
				if lf := selectorField(info, as.Lhs[i]); lf != nil && !lf.Exported() {
					privateLits[cl] = true
					nPrivate++
				}
			}
			return true
		})
	}
	// examine all stores of fv and flag in the package
	okAll := true
	why := ""
	nStores := 0
	for _, f := range pkg.Syntax {
		ast.Inspect(f, func(n ast.Node) bool {
			switch x := n.(type) {
			case *ast.BlockStmt:
				var fStores, bStores []*ast.AssignStmt
				for _, st := range x.List {
					as, ok := st.(*ast.AssignStmt)
					if !ok {
						continue
					}
					for _, l := range as.Lhs {
						switch selectorField(info, l) {
						case fv:
							fStores = append(fStores, as)
						case flag:
							bStores = append(bStores, as)
						}
					}
				}
				for _, as := range fStores {
					nStores++
					rt := info.TypeOf(as.Rhs[0])
					if types.Identical(rt, want) {
						continue
					}
					// must be paired with flag = true in the same block
					paired := false
					for _, bs := range bStores {
						if exprString(bs.Rhs[0]) == "true" {
							paired = true
						}
					}
					if !paired {
						okAll, why = false, fmt.Sprintf("%s is stored with static type %s without %s = true in the same block", fv.Name(), rt, flag.Name())
					}
				}
				for _, bs := range bStores {
					if exprString(bs.Rhs[0]) != "false" {
						continue
					}
					paired := false
					for _, as := range fStores {
						if types.Identical(info.TypeOf(as.Rhs[0]), want) {
							paired = true
						}
					}
					if !paired {
						okAll, why = false, fmt.Sprintf("%s = false without restoring %s to a %s in the same block", flag.Name(), fv.Name(), want)
					}
				}
			case *ast.CompositeLit:
				if namedOf(info.TypeOf(x)) != owner || privateLits[x] {
					return true
				}
				for _, el := range x.Elts {
					kv, ok := el.(*ast.KeyValueExpr)
					if !ok {
						continue
					}
					id, ok := kv.Key.(*ast.Ident)
					if !ok {
						continue
					}
					switch info.Uses[id] {
					case types.Object(fv):
						nStores++
						if !types.Identical(info.TypeOf(kv.Value), want) {
							okAll, why = false, fmt.Sprintf("a %s literal sets %s to a %s", owner.Obj().Name(), fv.Name(), info.TypeOf(kv.Value))
						}
					case types.Object(flag):
						if exprString(kv.Value) != "false" {
							okAll, why = false, "a literal sets "+flag.Name()
						}
					}
				}
			}
			return true
		})
	}
	if !okAll {
		return why, false
	}
	return fmt.Sprintf("field invariant: !%s implies %s holds a %s (all %d stores of the field and of the flag checked; %d literal(s) stored in unexported fields are private objects that never reach an option)", flag.Name(), fv.Name(), want, nStores, nPrivate), true
}

type encCond struct {
	cond     ast.Expr
	positive bool
}

// enclosingCondsIn lists the if conditions whose then- (positive) or else-branch contains n.
func enclosingCondsIn(body *ast.BlockStmt, n ast.Node) []encCond {
	var out []encCond
	ast.Inspect(body, func(m ast.Node) bool {
		is, ok := m.(*ast.IfStmt)
		if !ok {
			return true
		}
		if is.Body.Pos() <= n.Pos() && n.End() <= is.Body.End() {
			out = append(out, encCond{is.Cond, true})
		} else if is.Else != nil && is.Else.Pos() <= n.Pos() && n.End() <= is.Else.End() {
			out = append(out, encCond{is.Cond, false})
		}
		return true
	})
	return out
}

// assertByReflectTag handles `v.Interface().(T)` under `x == tagB`, where tagB is a
// package-level reflect type used as a marker, and the only place the function puts
// tagB into a type slot is under `y == tagA` with tagA = reflect.TypeFor[T]().
func assertByReflectTag(pkg *packages.Package, fd *ast.FuncDecl, ta *ast.TypeAssertExpr) (string, bool) {
	info := pkg.TypesInfo
	want := info.TypeOf(ta.Type)
	typeForArg := func(o types.Object) types.Type {
		// package-level `name = reflect.TypeFor[X]()`
		for _, f := range pkg.Syntax {
			for _, d := range f.Decls {
				gd, ok := d.(*ast.GenDecl)
				if !ok {
					continue
				}
				for _, sp := range gd.Specs {
					vs, ok := sp.(*ast.ValueSpec)
					if !ok {
						continue
					}
					for i, nm := range vs.Names {
						if info.Defs[nm] != o || i >= len(vs.Values) {
							continue
						}
						c, ok := vs.Values[i].(*ast.CallExpr)
						if !ok {
							continue
						}
						if ix, ok := c.Fun.(*ast.IndexExpr); ok {
							if fn := calleeOfExpr(info, ix.X); fn != nil && fn.Name() == "TypeFor" {
								return info.TypeOf(ix.Index)
							}
						}
					}
				}
			}
		}
		return nil
	}
	pkgVar := func(e ast.Expr) types.Object {
		id, ok := ast.Unparen(e).(*ast.Ident)
		if !ok {
			return nil
		}
		o := info.ObjectOf(id)
		if v, ok := o.(*types.Var); ok && v.Parent() == pkg.Types.Scope() {
			return o
		}
		return nil
	}
	var marker types.Object
	for _, ec := range enclosingCondsIn(fd.Body, ta) {
		if !ec.positive {
			continue
		}
		for _, cj := range conjuncts(ec.cond) {
			if be, ok := ast.Unparen(cj).(*ast.BinaryExpr); ok && be.Op == token.EQL {
				if o := pkgVar(be.Y); o != nil && typeForArg(o) != nil {
					marker = o
				}
			}
		}
	}
	if marker == nil {
		return "no enclosing `== <reflect marker type>` test", false
	}
	// every non-comparison use of marker in fd is an assignment under `== tagA`, tagA = TypeFor[want]
	ok := true
	why := ""
	uses := 0
	ast.Inspect(fd.Body, func(n ast.Node) bool {
		as, isAs := n.(*ast.AssignStmt)
		if !isAs {
			return true
		}
		for _, rh := range as.Rhs {
			if pkgVar(rh) != marker {
				continue
			}
			uses++
			found := false
			for _, ec := range enclosingCondsIn(fd.Body, as) {
				if !ec.positive {
					continue
				}
				for _, cj := range conjuncts(ec.cond) {
					if be, isBe := ast.Unparen(cj).(*ast.BinaryExpr); isBe && be.Op == token.EQL {
						if o := pkgVar(be.Y); o != nil {
							if t := typeForArg(o); t != nil && types.Identical(t, want) {
								found = true
							}
						}
					}
				}
			}
			if !found {
				ok, why = false, "the marker type is assigned without testing the source field's type against "+want.String()
			}
		}
		return true
	})
	if !ok || uses == 0 {
		if why == "" {
			why = "the marker type is never assigned in this function"
		}
		return why, false
	}
	return fmt.Sprintf("reflect marker: the slot has type %s only where the source field's type equals reflect.TypeFor[%s] (%d assignment(s) checked), and the assertion is under `== %s`", marker.Name(), want, uses, marker.Name()), true
}

// ---------------------------------------------------------------- R06d

func checkPanicInventory(p *Prog, r *Result, pkgs []*packages.Package, rels []string, classified map[token.Pos]string) {
	// one named function per line, with the reason
	preconditions := map[string]string{
		"syntax.Variant":           "option precondition: Variant panics for LangAuto and for values that are not a single known variant (documented)",
		"syntax.StopAt":            "option precondition: stop words longer than four bytes or containing whitespace are rejected (documented)",
		"typedjson.(EncodeOptions).Encode": "tree-shape precondition: the root is a non-nil pointer to a node struct; the parser never returns a typed nil",
		"typedjson.encodeValue":    "tree-shape precondition: an interface field never holds a typed nil pointer in parser-built trees",
	}
	for i, pkg := range pkgs {
		info := pkg.TypesInfo
		for _, fd := range p.AllFuncDecls(rels[i]) {
			n := 0
			ast.Inspect(fd.Body, func(x ast.Node) bool {
				c, ok := x.(*ast.CallExpr)
				if !ok || !isBuiltinCall(info, c, "panic") {
					return true
				}
				if classified[c.Pos()] != "" {
					return true
				}
				n++
				fk := funcKey(rels[i][strings.LastIndex(rels[i], "/")+1:], fd)
				key := fmt.Sprintf("%s#panic %d", fk, n)
				if why, ok := preconditions[fk]; ok {
					r.OK("R06d", key, c.Pos(), "exception: "+why)
					r.Except(fk, why)
				} else {
					r.Undecided("R06d", key, c.Pos(), "a panic call that no rule shows to be unreachable and that is not an enumerated precondition")
				}
				return true
			})
		}
	}
}

// ---------------------------------------------------------------- R06e

// unreadBound recognises guards bounding the number of unread bytes:
//
//	p.bsp >= uint(len(p.bs))      -> 0        int(p.bsp) >= len(p.bs) -> 0
//	int(p.bsp+K) >= len(p.bs)     -> K        !utf8.FullRune(p.bs[p.bsp:]) -> utf8.UTFMax-1
func unreadBound(info *types.Info, e *FEdge) (int64, bool) {
	if e.Cond == nil {
		return 0, false
	}
	isBsp := func(x ast.Expr) (int64, bool) {
		x = ast.Unparen(x)
		for {
			c, ok := x.(*ast.CallExpr)
			if !ok || len(c.Args) != 1 {
				break
			}
			if tv, ok := info.Types[c.Fun]; !ok || !tv.IsType() {
				break
			}
			x = ast.Unparen(c.Args[0])
		}
		if fv := selectorField(info, x); fv != nil && fv.Name() == "bsp" {
			return 0, true
		}
		if be, ok := x.(*ast.BinaryExpr); ok && be.Op == token.ADD {
			if fv := selectorField(info, be.X); fv != nil && fv.Name() == "bsp" {
				if tv := info.Types[be.Y]; tv.Value != nil {
					k, _ := constant.Int64Val(constant.ToInt(tv.Value))
					return k, true
				}
			}
		}
		return 0, false
	}
	isLenBs := func(x ast.Expr) bool {
		x = ast.Unparen(x)
		for {
			c, ok := x.(*ast.CallExpr)
			if !ok || len(c.Args) != 1 {
				return false
			}
			if tv, ok := info.Types[c.Fun]; ok && tv.IsType() {
				x = ast.Unparen(c.Args[0])
				continue
			}
			if isBuiltinCall(info, c, "len") {
				fv := selectorField(info, c.Args[0])
				return fv != nil && fv.Name() == "bs"
			}
			return false
		}
	}
	switch x := ast.Unparen(e.Cond).(type) {
	case *ast.BinaryExpr:
		if k, ok := isBsp(x.X); ok && isLenBs(x.Y) {
			if (x.Op == token.GEQ && e.Pol) || (x.Op == token.LSS && !e.Pol) {
				return k, true
			}
		}
		// len(p.bs) - int(p.bsp) < K, with K a constant or the result of a function that only returns constants
		if sub, ok := ast.Unparen(x.X).(*ast.BinaryExpr); ok && sub.Op == token.SUB && isLenBs(sub.X) {
			if k0, ok := isBsp(sub.Y); ok && k0 == 0 {
				var bound int64 = -1
				if tv := info.Types[x.Y]; tv.Value != nil {
					bound, _ = constant.Int64Val(constant.ToInt(tv.Value))
				} else if c, ok := ast.Unparen(x.Y).(*ast.CallExpr); ok {
					if fn := calleeOf(info, c); fn != nil {
						if m, ok := constReturnMax[fn]; ok {
							bound = m
						}
					}
				}
				if bound >= 0 && ((x.Op == token.LSS && e.Pol) || (x.Op == token.GEQ && !e.Pol)) {
					return bound, true
				}
			}
		}
	case *ast.CallExpr:
		if fn := calleeOf(info, x); fn != nil && fn.Pkg() != nil && fn.Pkg().Path() == "unicode/utf8" && fn.Name() == "FullRune" && !e.Pol {
			if se, ok := ast.Unparen(x.Args[0]).(*ast.SliceExpr); ok && se.High == nil {
				if fv := selectorField(info, se.X); fv != nil && fv.Name() == "bs" {
					if lo := selectorField(info, se.Low); lo != nil && lo.Name() == "bsp" {
						return 3, true
					}
				}
			}
		}
	}
	return 0, false
}

// constReturnMax: functions of package syntax every return of which is an integer constant, with the largest.
var constReturnMax = map[*types.Func]int64{}

func checkFillGuards(p *Prog, r *Result, pkg *packages.Package) {
	info := pkg.TypesInfo
	computeConstReturnMax(p, info)
	fill := lookupFunc(pkg, "Parser.fill")
	if fill == nil {
		r.Fatalf("anchor Parser.fill not found")
		return
	}
	for _, fd := range p.AllFuncDecls("syntax") {
		type body struct {
			key string
			b   *ast.BlockStmt
		}
		bodies := []body{{funcKey("syntax", fd), fd.Body}}
		k := 0
		ast.Inspect(fd.Body, func(n ast.Node) bool {
			if lit, ok := n.(*ast.FuncLit); ok {
				k++
				bodies = append(bodies, body{fmt.Sprintf("%s$%d", funcKey("syntax", fd), k), lit.Body})
			}
			return true
		})
		for _, bd := range bodies {
			has := false
			inspectNoLit(bd.b, func(n ast.Node) bool {
				if c, ok := n.(*ast.CallExpr); ok && calleeOf(info, c) == fill {
					has = true
				}
				return true
			})
			if !has {
				continue
			}
			g := NewFGraph(info, bd.b, nil)
			for _, cs := range findCalls(g, func(c *ast.CallExpr) bool { return calleeOf(info, c) == fill }) {
				best := int64(-1)
				guarded := underEdges(g, cs.blk, func(e *FEdge) bool {
					k, ok := unreadBound(info, e)
					if ok && k > best {
						best = k
					}
					return ok
				})
				// no advance of bs/bsp between the guard and the call is needed: advancing only lowers the count
				r.Check(guarded, "R06e", bd.key+"#fill()", cs.call.Pos(), fmt.Sprintf("reached only under a guard leaving at most %d unread bytes", best),
					"fill() can be called with an unbounded number of unread bytes: once they fill the whole read buffer the next Read has no room, returns (0, nil) and fill retries forever (the parser hangs)")
			}
		}
	}
}

// ---------------------------------------------------------------- R06f

func checkBackwardOffsets(p *Prog, r *Result, pkg *packages.Package) {
	info := pkg.TypesInfo
	exceptions := map[string]string{}
	// newLit slices the bytes of the rune just read. That is in range when it steps back by p.w, the width rune()
	// stored when it advanced the cursor — and not by a width worked out again from the rune's value: an invalid
	// byte decodes to utf8.RuneError, which is one byte in the input and three when encoded.
	widthProof := func(fd *ast.FuncDecl, sub ast.Expr) (string, bool) {
		if fd.Name.Name != "newLit" {
			return "", false
		}
		if fv := selectorField(info, stripConv(info, sub)); fv == nil || fv.Name() != "w" {
			return "the width is not p.w: a width derived from the rune's value is 3 for utf8.RuneError, but an invalid byte moved the cursor by 1 (when the error report is a no-op because a read error is already recorded, that rune reaches newLit)", false
		}
		rfd := p.FuncDecl("syntax", "Parser.rune")
		if rfd == nil {
			return "Parser.rune not found", false
		}
		rg := NewFGraph(info, rfd.Body, nil)
		paired := 0
		okAll := true
		inspectNoLit(rfd.Body, func(n ast.Node) bool {
			as, isAs := n.(*ast.AssignStmt)
			if !isAs || as.Tok != token.ADD_ASSIGN || len(as.Lhs) != 1 {
				return true
			}
			if fv := selectorField(info, as.Lhs[0]); fv == nil || fv.Name() != "bsp" {
				return true
			}
			id, isID := stripConv(info, as.Rhs[0]).(*ast.Ident)
			if !isID {
				return true // a constant step on the ASCII paths; newLit's multi-byte case is not reached from them
			}
			blk, i := rg.BlockOf(as)
			if blk == nil {
				okAll = false
				return true
			}
			hit, _ := rg.MustPass(blk, i, rg.Exit, func(m ast.Node) bool {
				a2, isAs2 := m.(*ast.AssignStmt)
				if !isAs2 || a2.Tok != token.ASSIGN || len(a2.Lhs) != 1 || len(a2.Rhs) != 1 {
					return false
				}
				fv := selectorField(info, a2.Lhs[0])
				id2, isID2 := ast.Unparen(a2.Rhs[0]).(*ast.Ident)
				return fv != nil && fv.Name() == "w" && isID2 && info.ObjectOf(id2) == info.ObjectOf(id)
			}, nil)
			if hit {
				paired++
			} else {
				okAll = false
			}
			return true
		})
		if paired == 0 || !okAll {
			return "rune() advances the cursor by a decoded width without storing that width in p.w on every path", false
		}
		return "steps back by p.w, which rune() sets to the very width it advanced the cursor by on every path after decoding (nothing refills in between: C07 R07a)", true
	}
	for _, fd := range p.AllFuncDecls("syntax") {
		var g *FGraph
		// locals defined as p.bsp - x
		inspectNoLit(fd.Body, func(n ast.Node) bool {
			var idx []ast.Expr
			switch x := n.(type) {
			case *ast.IndexExpr:
				if fv := selectorField(info, x.X); fv != nil && fv.Name() == "bs" {
					idx = append(idx, x.Index)
				}
			case *ast.SliceExpr:
				if fv := selectorField(info, x.X); fv != nil && fv.Name() == "bs" {
					idx = append(idx, x.Low, x.High)
				}
			}
			for _, ie := range idx {
				if ie == nil {
					continue
				}
				sub := findBspMinus(info, fd, ie)
				if sub == nil {
					continue
				}
				key := fmt.Sprintf("%s#p.bs[… p.bsp - %s …]", funcKey("syntax", fd), exprString(sub))
				if fd.Name.Name == "newLit" {
					why, ok := widthProof(fd, sub)
					r.Check(ok, "R06f", key, ie.Pos(), why, "newLit slices the read buffer back from the cursor: "+why)
					continue
				}
				if why, ok := exceptions[fd.Name.Name]; ok {
					r.OK("R06f", key, ie.Pos(), "exception: "+why)
					r.Except("syntax.(Parser)."+fd.Name.Name, why)
					continue
				}
				if g == nil {
					g = NewFGraph(info, fd.Body, nil)
				}
				blk, _ := g.BlockOf(n)
				want := exprString(stripConv(info, sub))
				guarded := blk != nil && underEdges(g, blk, func(e *FEdge) bool {
					be, ok := e.Cond.(*ast.BinaryExpr)
					if !ok {
						return false
					}
					l, rr := selectorField(info, be.X), exprString(stripConv(info, be.Y))
					if l == nil || l.Name() != "bsp" || rr != want {
						return false
					}
					return (be.Op == token.GEQ && e.Pol) || (be.Op == token.LSS && !e.Pol)
				})
				r.Check(guarded, "R06f", key, ie.Pos(), "dominated by p.bsp >= "+want,
					"the offset p.bsp - "+want+" is computed on an unsigned counter without a dominating p.bsp >= "+want+" test: after a refill (bsp reset to 0) it wraps around and the slice expression panics")
			}
			return true
		})
	}
}

func stripConv(info *types.Info, e ast.Expr) ast.Expr {
	e = ast.Unparen(e)
	for {
		c, ok := e.(*ast.CallExpr)
		if !ok || len(c.Args) != 1 {
			return e
		}
		if tv, ok := info.Types[c.Fun]; !ok || !tv.IsType() {
			return e
		}
		e = ast.Unparen(c.Args[0])
	}
}

// findBspMinus returns x if e (or the single definition of the local e names) is p.bsp - x.
func findBspMinus(info *types.Info, fd *ast.FuncDecl, e ast.Expr) ast.Expr {
	e = ast.Unparen(e)
	if be, ok := e.(*ast.BinaryExpr); ok && be.Op == token.SUB {
		if fv := selectorField(info, be.X); fv != nil && fv.Name() == "bsp" {
			return be.Y
		}
	}
	if id, ok := e.(*ast.Ident); ok {
		if def := singleDef(info, fd, info.ObjectOf(id)); def != nil {
			if be, ok := ast.Unparen(def).(*ast.BinaryExpr); ok && be.Op == token.SUB {
				if fv := selectorField(info, be.X); fv != nil && fv.Name() == "bsp" {
					return be.Y
				}
			}
		}
	}
	return nil
}

var c06Controls = []Control{
	{Name: "numeric-range-recognisers-disagree-inside-a-test", Rule: "R06i", WantKey: "isLitRedir#lit", File: "syntax/lexer.go",
		Mutate: ctlReplaceAnywhere("\t\t\tif r == '<' && p.lang.in(LangZsh) && p.zshNumRange() {\n\t\t\t\t// Zsh numeric range glob like", "\t\t\tif r == '<' && p.quote != testExpr && p.lang.in(LangZsh) && p.zshNumRange() {\n\t\t\t\t// Zsh numeric range glob like")},
	{Name: "token-after-a-comment-read-by-recursion", Rule: "R06m", WantKey: "next#a lexer function does not call itself", File: "syntax/lexer.go",
		Mutate: ctlChain(ctlReplaceAnywhere("\t\t\tgoto restart\n", "\t\t\tp.next()\n"), ctlReplaceAnywhere("func (p *Parser) next() {\nrestart:\n", "func (p *Parser) next() {\n"))},
	{Name: "literal-start-width-from-the-rune-value", Rule: "R06f", WantKey: "newLit#p.bs", File: "syntax/lexer.go",
		Mutate: ctlReplaceAnywhere("p.bs[p.bsp-uint(p.w):p.bsp]...)", "p.bs[p.bsp-uint(utf8.RuneLen(r)):p.bsp]...)")},
	{Name: "fill-empties-the-buffer-at-eof", Rule: "R06k", WantKey: "fill#store 1 to p.bs keeps the unread bytes", File: "syntax/lexer.go",
		Mutate: ctlReplaceAnywhere("\tif p.readEOF || p.r == runeEOF {\n", "\tif p.readEOF {\n\t\tp.offs += int64(p.bsp)\n\t\tp.bs, p.bsp = nil, 0\n\t\treturn 0\n\t}\n\tif p.r == runeEOF {\n")},
	{Name: "missing-operand-recovered-without-a-stand-in", Rule: "R06n", WantKey: "arithmExprBinary#value.Y", File: "syntax/parser_arithm.go",
		Mutate: ctlReplaceAnywhere("\t\ty := nextOp(compact)\n\t\tif y == nil {\n", "\t\ty := nextOp(compact)\n\t\tif y == nil && !p.recoverError() {\n")},
	{Name: "test-clause-without-an-expression-accepted", Rule: "R06n", WantKey: "testClause#tc.X", File: "syntax/parser.go",
		Mutate: ctlReplaceAnywhere("\tif tc.X = p.testExprBinary(false); tc.X == nil {\n\t\tp.followErrExp(tc.Left, dblLeftBrack)\n\t}\n", "\ttc.X = p.testExprBinary(false)\n")},
	{Name: "increment-of-a-missing-literal-recovered", Rule: "R06n", WantKey: "arithmExprValue#ue.X", File: "syntax/parser_arithm.go",
		Mutate: ctlReplaceAnywhere("\t\tif p.tok != _LitWord {\n\t\t\tp.followErr(ue.OpPos, ue.Op, noQuote(\"a literal\"))", "\t\tif p.tok != _LitWord && !p.recoverError() {\n\t\t\tp.followErr(ue.OpPos, ue.Op, noQuote(\"a literal\"))")},
	{Name: "coproc-takes-time-for-a-compound-command", Rule: "R06n", WantKey: "coprocClause#cc.Stmt", File: "syntax/parser.go",
		Mutate: ctlReplaceAnywhere("\t\t\t\"coproc\", \"let\", \"function\", \"declare\", \"local\",\n", "\t\t\t\"coproc\", \"let\", \"function\", \"declare\", \"local\", \"!\",\n")},
	{Name: "token-producer-drops-its-error-epilogue", Rule: "R06l", WantKey: "nextKeepSpaces#a stored error forces the token", File: "syntax/lexer.go",
		Mutate: ctlReplaceAnywhere("\t\t\tp.advanceLitOther(r)\n\t\t}\n\t}\n\tif p.err != nil {\n\t\tp.tok = _EOF\n\t}\n}\n\nfunc (p *Parser) next() {", "\t\t\tp.advanceLitOther(r)\n\t\t}\n\t}\n}\n\nfunc (p *Parser) next() {")},
	{Name: "let-with-only-redirects-accepted", Rule: "R06i", WantKey: "(LetClause).End#l.Exprs", File: "syntax/parser.go",
		Mutate: ctlReplaceAnywhere("\tif len(lc.Exprs) == 0 {\n\t\tp.followErrExp(lc.Let, \"let\")", "\tif len(lc.Exprs) == 0 && !p.peekRedir() {\n\t\tp.followErrExp(lc.Let, \"let\")")},
	{Name: "first-part-line-hoisted-out-of-the-guard", Rule: "R06i", WantKey: "wordParts#wps[0]", File: "syntax/printer.go",
		Mutate: ctlReplaceAnywhere("\tif !quoted && !p.singleLine && wps[0].Pos().Line() > p.line {", "\tstartLine := wps[0].Pos().Line()\n\tif !quoted && !p.singleLine && startLine > p.line {")},
	{Name: "fill-skips-prefix-without-length-test", Rule: "R06k", WantKey: "fill#cursor store", File: "syntax/lexer.go",
		Mutate: ctlReplaceAnywhere("\tp.bsp = 0\n\treturn n\n", "\tp.bsp = 0\n\tif p.offs == 0 && left == 0 && n >= 3 && p.bs[0] == 0xef {\n\t\tp.bsp = 3\n\t}\n\treturn n\n")},
	{Name: "rune-indexes-without-refill-test", Rule: "R06k", WantKey: "rune#p.bs[p.bsp]", File: "syntax/lexer.go",
		Mutate: ctlReplaceAnywhere("if p.bsp >= uint(len(p.bs)) && p.fill() == 0 {\n\t\t// Necessary for the last position", "if p.bsp > uint(len(p.bs)) && p.fill() == 0 {\n\t\t// Necessary for the last position")},
	{Name: "stmtsseq-yields-after-stop", Rule: "R06j", WantKey: "StmtsSeq#iterator literal", File: "syntax/parser.go",
		Mutate: ctlReplaceAnywhere("\t\tif stopped {\n\t\t\treturn // yield must not be called again\n\t\t}\n", "")},
	{Name: "interactiveseq-ignores-reader-stop", Rule: "R06j", WantKey: "InteractiveSeq#iterator literal", File: "syntax/parser.go",
		Mutate: ctlReplaceAnywhere("\t\t\tif w.stopped {\n\t\t\t\treturn\n\t\t\t}\n", "")},
	{Name: "caseitem-pos-unguarded", Rule: "R06i", WantKey: "CaseItem).Pos#c.Patterns", File: "syntax/nodes.go",
		Mutate: ctlReplaceAnywhere("\tif len(c.Patterns) == 0 {\n\t\t// Only possible when [RecoverErrors] stood in for missing patterns.\n\t\treturn recoveredPos\n\t}\n", "")},
	{Name: "rune-loop-without-eof-test", Rule: "R06h", WantKey: "zshSubFlags#for loop 2", File: "syntax/parser.go",
		Mutate: ctlReplace("Parser.zshSubFlags", "p.r != runeEOF && p.r != ',' && p.r != ']'", "p.r != ',' && p.r != ']'", 0)},
	{Name: "rune-loop-that-can-stand-still", Rule: "R06h", WantKey: "zshSubFlags#for loop 1", File: "syntax/parser.go",
		Mutate: ctlReplaceAnywhere("\tfor p.newLit(p.r); p.r != runeEOF && p.r != ')'; p.rune() {\n\t}\n\tp.val = p.endLit()", "\tfor p.newLit(p.r); p.r != runeEOF && p.r != ')'; {\n\t\tif p.r != '\\\\' {\n\t\t\tp.rune()\n\t\t}\n\t}\n\tp.val = p.endLit()")},
	{Name: "regops-gains-a-rune", Rule: "R06a", WantKey: "next#calls regToken", File: "syntax/lexer.go",
		Mutate: ctlReplaceAnywhere("func regOps(r rune) bool {\n\tswitch r {\n\tcase ';', '\"', '\\'', '(', ')', '$', '|', '&', '>', '<', '`':", "func regOps(r rune) bool {\n\tswitch r {\n\tcase ';', '\"', '\\'', '(', ')', '$', '|', '&', '>', '<', '`', '~':")},
	{Name: "walk-loses-a-case", Rule: "R06b", WantKey: "Walk#switch Node/case *TimeClause", File: "syntax/walk.go",
		Mutate: ctlReplaceAnywhere("\tcase *TimeClause:\n\t\twalkNilable(node.Stmt, f)\n", "")},
	{Name: "keeppadding-asserts-unconditionally", Rule: "R06c", WantKey: "KeepPadding", File: "syntax/printer.go",
		Mutate: ctlReplaceAnywhere("\t\tif enabled && !p.keepPadding {", "\t\tif enabled {")},
	{Name: "new-panic-in-lexer", Rule: "R06d", WantKey: "peek#panic", File: "syntax/lexer.go",
		Mutate: ctlReplaceAnywhere("func (p *Parser) peek() byte {\n", "func (p *Parser) peek() byte {\n\tif p.bsp > uint(len(p.bs)) {\n\t\tpanic(\"bsp past the buffer\")\n\t}\n")},
	{Name: "fill-with-variable-lookahead", Rule: "R06e", WantKey: "zshNumRange#fill()", File: "syntax/lexer.go",
		Mutate: ctlReplace("Parser.zshNumRange", "int(p.bsp) >= len(p.bs)", "int(p.bsp)+len(p.stopAt) >= len(p.bs)", 0)},
	{Name: "stopat-offset-unguarded", Rule: "R06f", WantKey: "next#p.bs", File: "syntax/lexer.go",
		Mutate: ctlReplace("Parser.next", "p.bsp >= w && bytes.HasPrefix(p.bs[p.bsp-w:], p.stopAt)", "len(p.bs) > 0 && bytes.HasPrefix(p.bs[p.bsp-w:], p.stopAt)", 0)},
	{Name: "reset-forgets-buriedHdocs", Rule: "R06g", WantKey: "Parser.buriedHdocs", File: "syntax/parser.go",
		Mutate: ctlReplace("Parser.reset", "p.heredocs, p.buriedHdocs = p.heredocs[:0], 0", "p.heredocs = p.heredocs[:0]", 0)},
}

// assertByPoolInvariant handles the sync.Pool idiom `pool.Get().(*T)`: the pool is a package-level variable whose New
// function returns only values of static type *T, and every Put on that pool in the package passes a *T.
func assertByPoolInvariant(p *Prog, pkg *packages.Package, rel string, ta *ast.TypeAssertExpr) (string, bool) {
	info := pkg.TypesInfo
	call, ok := ast.Unparen(ta.X).(*ast.CallExpr)
	if !ok {
		return "", false
	}
	callee := calleeOf(info, call)
	if callee == nil || qualName(callee) != "sync.(Pool).Get" {
		return "", false
	}
	se, ok := ast.Unparen(call.Fun).(*ast.SelectorExpr)
	if !ok {
		return "", false
	}
	poolID, ok := ast.Unparen(se.X).(*ast.Ident)
	if !ok {
		return "", false
	}
	poolObj, ok := info.ObjectOf(poolID).(*types.Var)
	if !ok || poolObj.Parent() != pkg.Types.Scope() {
		return "", false
	}
	want := info.TypeOf(ta.Type)
	// the New function of the pool's composite literal
	newOK := false
	for _, f := range pkg.Syntax {
		ast.Inspect(f, func(n ast.Node) bool {
			vs, ok := n.(*ast.ValueSpec)
			if !ok {
				return true
			}
			for i, nm := range vs.Names {
				if info.Defs[nm] != poolObj || i >= len(vs.Values) {
					continue
				}
				lit := compositeOf(vs.Values[i])
				if lit == nil {
					continue
				}
				for _, el := range lit.Elts {
					kv, ok := el.(*ast.KeyValueExpr)
					if !ok {
						continue
					}
					if k, ok := kv.Key.(*ast.Ident); !ok || k.Name != "New" {
						continue
					}
					fl, ok := ast.Unparen(kv.Value).(*ast.FuncLit)
					if !ok {
						continue
					}
					all, any := true, false
					ast.Inspect(fl.Body, func(m ast.Node) bool {
						if rs, ok := m.(*ast.ReturnStmt); ok && len(rs.Results) == 1 {
							any = true
							if t := info.TypeOf(rs.Results[0]); t == nil || !types.Identical(t, want) {
								all = false
							}
						}
						return true
					})
					newOK = all && any
				}
			}
			return true
		})
	}
	if !newOK {
		return "", false
	}
	putsOK := true
	for _, fd := range p.AllFuncDecls(rel) {
		if fd.Body == nil {
			continue
		}
		ast.Inspect(fd.Body, func(n ast.Node) bool {
			c, ok := n.(*ast.CallExpr)
			if !ok || len(c.Args) != 1 {
				return true
			}
			if cal := calleeOf(info, c); cal == nil || qualName(cal) != "sync.(Pool).Put" {
				return true
			}
			s2, ok := ast.Unparen(c.Fun).(*ast.SelectorExpr)
			if !ok {
				return true
			}
			if id, ok := ast.Unparen(s2.X).(*ast.Ident); !ok || info.ObjectOf(id) != poolObj {
				return true
			}
			if t := info.TypeOf(c.Args[0]); t == nil || !types.Identical(t, want) {
				putsOK = false
			}
			return true
		})
	}
	if !putsOK {
		return "", false
	}
	return fmt.Sprintf("sync.Pool idiom: %s's New returns only %s and every Put on it passes one", poolObj.Name(), types.TypeString(want, nil)), true
}

func computeConstReturnMax(p *Prog, info *types.Info) {
	for _, fd := range p.AllFuncDecls("syntax") {
		fo, ok := info.Defs[fd.Name].(*types.Func)
		if !ok || fd.Body == nil || fd.Type.Results == nil || len(fd.Type.Results.List) != 1 {
			continue
		}
		var best int64 = -1
		all := true
		inspectNoLit(fd.Body, func(n ast.Node) bool {
			if rs, ok := n.(*ast.ReturnStmt); ok {
				if len(rs.Results) != 1 {
					all = false
					return true
				}
				tv := info.Types[rs.Results[0]]
				if tv.Value == nil || tv.Value.Kind() != constant.Int {
					all = false
					return true
				}
				v, _ := constant.Int64Val(tv.Value)
				if v > best {
					best = v
				}
			}
			return true
		})
		if all && best >= 0 {
			constReturnMax[fo] = best
		}
	}
}
