package main

import (
	"slices"
	"fmt"
	"go/ast"
	"go/token"
	"go/types"
	"sort"
	"strings"

	"golang.org/x/tools/go/packages"
)

func init() {
	register(&Property{
		ID:  "C08",
		Run: runC08,
		Decided: "a reused Parser or Printer starts from the same state as a fresh one: every field is reset, or is configuration (written only by options and the constructor), or is set by every " +
			"entry point before use, or is scratch, or is provably written before it is read, each class checked mechanically where it can be (R08a); every entry point resets before touching " +
			"the receiver, and the convenience entry points reach the lexer only through those (R08b); Parse and StmtsSeq run the same prologue, statement loop and heredoc epilogue (R08c); " +
			"the counters behind Incomplete() and backquote tracking are decremented on every path after each increment (R08d). Fields that are not reset are proved written before read (interprocedurally, or by state gating) or are one of three reasoned exceptions with a mechanical necessary condition; InteractiveSeq yields everything it accumulated (R08f).",
		NotDecided:  "that the statements yielded by the streaming entry points equal Parse's; timing of InteractiveSeq callbacks; that `written before read` fields (spaced, pos, regexp and backquote bookkeeping) are written on every input before their first read — reasoned per field, one line each.",
		Assumptions: []string{"struct fields are only written through selector assignments, inc/dec, composite literals and address-taking (no reflection/unsafe in package syntax's parser and printer)"},
		Controls:    c08Controls,
	})
}

type fieldWrite struct {
	fn      *ast.FuncDecl
	lit     *ast.FuncLit // innermost enclosing function literal, if any
	pos     token.Pos
	inReset bool
}

// structFieldWrites collects writes to the fields of named struct st in pkg:
// assignments/inc-dec/address-of through selectors, and keyed composite literals.
func structFieldWrites(pkg *packages.Package, st *types.Named) (map[*types.Var][]fieldWrite, map[*types.Var][]token.Pos) {
	info := pkg.TypesInfo
	writes := map[*types.Var][]fieldWrite{}
	reads := map[*types.Var][]token.Pos{}
	sstruct := st.Underlying().(*types.Struct)
	isField := map[*types.Var]bool{}
	for i := 0; i < sstruct.NumFields(); i++ {
		isField[sstruct.Field(i)] = true
	}
	for _, f := range pkg.Syntax {
		for _, d := range f.Decls {
			fd, ok := d.(*ast.FuncDecl)
			if !ok || fd.Body == nil {
				continue
			}
			var litStack []*ast.FuncLit
			written := map[ast.Expr]bool{}
			var visit func(n ast.Node) bool
			record := func(e ast.Expr) {
				e = ast.Unparen(e)
				// p.f, p.f[i], p.f.x  -> the field p.f is (partly) written
				for {
					switch x := e.(type) {
					case *ast.IndexExpr:
						e = ast.Unparen(x.X)
						continue
					case *ast.SliceExpr:
						e = ast.Unparen(x.X)
						continue
					case *ast.StarExpr:
						e = ast.Unparen(x.X)
						continue
					}
					break
				}
				if fv := selectorField(info, e); fv != nil && isField[fv] {
					var lit *ast.FuncLit
					if len(litStack) > 0 {
						lit = litStack[len(litStack)-1]
					}
					writes[fv] = append(writes[fv], fieldWrite{fn: fd, lit: lit, pos: e.Pos()})
					written[e] = true
				}
			}
			visit = func(n ast.Node) bool {
				switch x := n.(type) {
				case *ast.FuncLit:
					litStack = append(litStack, x)
					ast.Inspect(x.Body, visit)
					litStack = litStack[:len(litStack)-1]
					return false
				case *ast.AssignStmt:
					for _, l := range x.Lhs {
						record(l)
					}
				case *ast.IncDecStmt:
					record(x.X)
				case *ast.UnaryExpr:
					if x.Op == token.AND {
						record(x.X)
					}
				case *ast.CompositeLit:
					// A keyed literal initialises a fresh object; it cannot carry
					// state of an existing one, so only the constructor's literal counts.
					if namedOf(info.TypeOf(x)) == st && fd.Recv == nil {
						for _, el := range x.Elts {
							if kv, ok := el.(*ast.KeyValueExpr); ok {
								if id, ok := kv.Key.(*ast.Ident); ok {
									if fv, ok := info.Uses[id].(*types.Var); ok && isField[fv] {
										var lit *ast.FuncLit
										if len(litStack) > 0 {
											lit = litStack[len(litStack)-1]
										}
										writes[fv] = append(writes[fv], fieldWrite{fn: fd, lit: lit, pos: kv.Pos()})
									}
								}
							}
						}
					}
				}
				return true
			}
			ast.Inspect(fd.Body, visit)
			ast.Inspect(fd.Body, func(n ast.Node) bool {
				if se, ok := n.(*ast.SelectorExpr); ok && !written[se] {
					if fv := selectorField(info, se); fv != nil && isField[fv] {
						reads[fv] = append(reads[fv], se.Pos())
					}
				}
				return true
			})
		}
	}
	return writes, reads
}

// isSaveRestore recognises the temporary override idiom
//
//	saved := p.F; p.F = X; ...; p.F = saved
//
// for the write w (either the override or the restore): a local is defined
// once from the field, and every path from the override to the function exit
// passes the assignment of that local back to the field.
func isSaveRestore(info *types.Info, w fieldWrite, fv *types.Var) bool {
	if w.lit != nil || w.fn.Body == nil {
		return false
	}
	var saved types.Object
	ast.Inspect(w.fn.Body, func(n ast.Node) bool {
		as, ok := n.(*ast.AssignStmt)
		if !ok || as.Tok != token.DEFINE || len(as.Lhs) != 1 || len(as.Rhs) != 1 {
			return true
		}
		if selectorField(info, as.Rhs[0]) == fv {
			if id, ok := as.Lhs[0].(*ast.Ident); ok {
				saved = info.Defs[id]
			}
		}
		return true
	})
	if saved == nil || countAssigns(info, w.fn, saved) != 1 {
		return false
	}
	g := NewFGraph(info, w.fn.Body, nil)
	isRestore := func(n ast.Node) bool {
		as, ok := n.(*ast.AssignStmt)
		if !ok || len(as.Lhs) != 1 || len(as.Rhs) != 1 || selectorField(info, as.Lhs[0]) != fv {
			return false
		}
		id, ok := ast.Unparen(as.Rhs[0]).(*ast.Ident)
		return ok && info.Uses[id] == saved
	}
	// locate the write statement
	for _, b := range g.Blocks {
		for i, n := range b.Nodes {
			as, ok := n.(*ast.AssignStmt)
			if !ok {
				continue
			}
			for _, l := range as.Lhs {
				if ast.Unparen(l).Pos() == w.pos && selectorField(info, l) == fv {
					if isRestore(n) {
						return true
					}
					ok, _ := g.MustPass(b, i, g.Exit, isRestore, nil)
					return ok
				}
			}
		}
	}
	return false
}

type resetSpec struct {
	typeName string   // "Parser"
	optType  string   // "ParserOption"
	ctor     string   // "NewParser"
	entries  []string // methods that must call reset first
	wrappers []string // exported methods that must go through the entries
	// exception tables: field -> class
	entrySet   map[string]string // set by every entry point before use
	scratch    map[string]string
	beforeRead map[string]string // reasoned: written before read
	gated      map[string]string // written before read, and the state-gating proof must succeed
	freshInFn  map[string]string // every read dominated by a write in the same function
}

func runC08(p *Prog, r *Result) {
	pkg := p.Pkg("syntax")
	if pkg == nil {
		r.Fatalf("package syntax not loaded")
		return
	}
	r.Rule("R08a", "every Parser/Printer field is reset, configuration, entry-set, scratch, or written before read (exception table, mechanically checked where possible)", 60)
	r.Rule("R08b", "reset() dominates every other receiver write in the entry points; other exported methods reach the lexer only through them", 10)
	r.Rule("R08f", "InteractiveSeq yields every statement it accumulated on every path to the iterator's end (stopped consumer, recorded error and empty accumulator aside)", 1)
	checkInteractiveHandsOver(p, r, pkg, "R08f")
	r.Rule("R08g", "a field fill() increments on an empty read and compares with a limit is set back to zero when a read returns bytes: a long streamed or interactive session is not cut off by a count that runs over the whole input (shared with C07 R07e)", 0)
	if n := checkRetryCounterReset(p, r, pkg, "R08g"); n == 0 {
		r.Notef("R08g: fill() keeps no count of empty reads on this tree; the rule is armed by a control under C07")
	}
	r.Rule("R08h", "the here-document body reader reads input only with a body pending (doHeredocs tests it before its first read, or every call site does): after a line without one, no byte beyond the newline is asked for, so a finished statement is handed over and not called incomplete (shared with C06 R06o)", 6)
	checkBodyReaderNeedsBody(p, r, pkg, "R08h")
	r.Rule("R08c", "sibling agreement Parse / StmtsSeq: same sequence reset, rune, next, statements, doHeredocs under err == nil", 2)
	r.Rule("R08e", "every newLit() is followed on every path by endLit(), a discard or an error report, so Incomplete() cannot stay true after a completed statement (shared with C10 R10c)", 15)
	r.Rule("R08i", "no slice is truncated in place after it was handed to a consumer or while a saved alias is read: the statements InteractiveSeq yielded stay what they were (shared with C10 R10f)", 3)
	r.Rule("R08j", "a function that copies bytes of its own into a caller's slice drops from its buffer what copy() says it copied, not the length of the source (0 instances on the pinned tree, whose reader wrapper passes Read through; armed by a control)", 0)
	if n := checkCopiedAmountConsumed(p, r, "R08j"); n == 0 {
		r.Notef("R08j: no function of the module copies into a []byte parameter on this tree")
	}
	r.Rule("R08d", "every increment of openNodes/openBquotes/openBquoteDbls is followed by its decrement on every path to the exit", 4)

	parser, printer := resetSpecs()
	checkResetSpec(p, r, pkg, parser)
	checkResetSpec(p, r, pkg, printer)

	checkSiblingEntries(p, r, pkg)
	checkCounters(p, r, pkg)
	// R08e: the literal buffer, the other input of Incomplete(), is closed on every path (shared with C10 R10c)
	{
		sub := newResult(r.Prop, r.prog)
		runC10(p, sub)
		for _, o := range sub.Obls {
			if o.Rule == "R10c" {
				o.Rule = "R08e"
				r.Obls = append(r.Obls, o)
			}
			// what an iterator handed out is the consumer's: the batch InteractiveSeq yielded is not reused
			if o.Rule == "R10f" {
				o.Rule = "R08i"
				r.Obls = append(r.Obls, o)
			}
		}
		r.Fatal = append(r.Fatal, sub.Fatal...)
	}
}

// resetSpecs returns the reset classification tables of Parser and Printer.
func resetSpecs() (resetSpec, resetSpec) {
	parser := resetSpec{
		typeName: "Parser", optType: "ParserOption", ctor: "NewParser",
		entries:  []string{"Parse", "StmtsSeq", "WordsSeq", "Document", "Arithmetic"},
		wrappers: []string{"Stmts", "Words", "Interactive", "InteractiveSeq", "Incomplete"},
		entrySet: map[string]string{"src": "every entry point stores the new reader", "f": "every entry point stores a new File"},
		scratch:  map[string]string{"readBuf": "read buffer, filled by fill() before bs points into it", "litBuf": "backing array for litBs, which reset() sets to nil"},
		beforeRead: map[string]string{
			"spaced":        "next() clears it before producing each token",
			"pos":           "next() sets it for every token before the parser reads it",
			"lastBquoteEsc": "rune() stores it on the backquote that makes the parser read it",
		},
	}
	parser.gated = map[string]string{
		"rxOpenParens": "only read in the regexp lexer state; every switch into that state is preceded by `= 0`",
		"rxFirstPart":  "only read in the regexp lexer state; every switch into that state is preceded by `= true`",
	}
	printer := resetSpec{
		typeName: "Printer", optType: "PrinterOption", ctor: "NewPrinter",
		entries:    []string{"Print"},
		freshInFn:  map[string]string{"tabsPrinter": "flushHeredocs assigns a fresh nested Printer before every use"},
	}
	return parser, printer
}

func checkResetSpec(p *Prog, r *Result, pkg *packages.Package, spec resetSpec) {
	info := pkg.TypesInfo
	st := lookupType(pkg, spec.typeName)
	if st == nil {
		r.Fatalf("anchor syntax.%s not found", spec.typeName)
		return
	}
	resetFD := p.FuncDecl("syntax", spec.typeName+".reset")
	if resetFD == nil {
		r.Fatalf("anchor (*%s).reset not found", spec.typeName)
		return
	}
	resetFn := lookupFunc(pkg, spec.typeName+".reset")
	writes, reads := structFieldWrites(pkg, st)
	sstruct := st.Underlying().(*types.Struct)

	// is the enclosing function an option constructor / the constructor?
	isOptionCtx := func(w fieldWrite) bool {
		if w.fn.Name.Name == spec.ctor && w.fn.Recv == nil {
			return true
		}
		if w.lit == nil || w.fn.Recv != nil || w.fn.Type.Results == nil || len(w.fn.Type.Results.List) != 1 {
			return false
		}
		return typeName(info.TypeOf(w.fn.Type.Results.List[0].Type)) == spec.optType
	}
	// fields assigned in reset(): value must not depend on the previous state except re-slicing to zero length
	resetAssigned := map[*types.Var]string{}
	ast.Inspect(resetFD.Body, func(n ast.Node) bool {
		as, ok := n.(*ast.AssignStmt)
		if !ok {
			return true
		}
		for i, l := range as.Lhs {
			fv := selectorField(info, l)
			if fv == nil {
				continue
			}
			var rhs ast.Expr
			if len(as.Lhs) == len(as.Rhs) {
				rhs = as.Rhs[i]
			}
			how := "constant"
			if rhs != nil {
				tv := info.Types[rhs]
				switch {
				case tv.Value != nil || isNilIdent(info, rhs):
				default:
					s := exprString(rhs)
					switch {
					case strings.HasSuffix(s, "[:0]") && strings.Contains(s, fv.Name()):
						how = "truncated to length 0 (capacity kept)"
					case strings.HasPrefix(s, "&"):
						how = "points at a field of the receiver"
					case strings.HasPrefix(s, "!"):
						how = "derived from configuration (" + s + ")"
					case stateFreeExpr(info, rhs):
						how = "a fresh value built without reading any state (" + s + ")"
					default:
						how = "expression " + s
					}
				}
			}
			resetAssigned[fv] = how
		}
		return true
	})

	var entryFDs []*ast.FuncDecl
	for _, e := range spec.entries {
		fd := p.FuncDecl("syntax", spec.typeName+"."+e)
		if fd == nil {
			r.Fatalf("anchor (*%s).%s not found", spec.typeName, e)
			continue
		}
		entryFDs = append(entryFDs, fd)
	}

	// ---- R08a
	for i := 0; i < sstruct.NumFields(); i++ {
		fv := sstruct.Field(i)
		key := fmt.Sprintf("syntax.%s.%s", spec.typeName, fv.Name())
		ws := writes[fv]
		if how, ok := resetAssigned[fv]; ok {
			if strings.HasPrefix(how, "expression ") {
				r.Undecided("R08a", key, fv.Pos(), "reset() assigns "+how+", which may depend on the previous use")
			} else {
				r.OK("R08a", key, fv.Pos(), "reset(): "+how)
			}
			continue
		}
		// configuration: every write is in an option closure or the constructor
		if len(ws) > 0 {
			allOpt := true
			var outside []string
			for _, w := range ws {
				if !isOptionCtx(w) && !isSaveRestore(info, w, fv) {
					allOpt = false
					outside = append(outside, w.fn.Name.Name+"@"+p.Position(w.pos))
				}
			}
			if allOpt {
				r.OK("R08a", key, fv.Pos(), fmt.Sprintf("configuration: its %d writes are all in %s closures or %s", len(ws), spec.optType, spec.ctor))
				continue
			}
			_ = outside
		}
		if why, ok := spec.entrySet[fv.Name()]; ok {
			// mechanical: every entry assigns it
			all := true
			for _, fd := range entryFDs {
				found := false
				for _, w := range ws {
					if w.fn == fd && w.lit == nil {
						found = true
					}
				}
				if !found {
					all = false
				}
			}
			r.Check(all, "R08a", key, fv.Pos(), "set by every entry point before use: "+why, "listed as set by every entry point, but some entry point does not assign it")
			r.Except(key, "entry-set: "+why)
			continue
		}
		if why, ok := spec.scratch[fv.Name()]; ok {
			_, isArr := fv.Type().Underlying().(*types.Array)
			r.Check(isArr, "R08a", key, fv.Pos(), "scratch array: "+why, "listed as scratch but is not an array buffer")
			r.Except(key, "scratch: "+why)
			continue
		}
		if why, ok := spec.freshInFn[fv.Name()]; ok {
			// every read is dominated by a write in the same function
			okAll := true
			detail := ""
			for _, fd := range p.AllFuncDecls("syntax") {
				var rd []ast.Node
				var wr []ast.Node
				inspectNoLit(fd.Body, func(n ast.Node) bool {
					switch x := n.(type) {
					case *ast.AssignStmt:
						for _, l := range x.Lhs {
							if selectorField(info, l) == fv {
								wr = append(wr, x)
							}
						}
					case *ast.SelectorExpr:
						if selectorField(info, x) == fv {
							rd = append(rd, x)
						}
					}
					return true
				})
				if len(rd) == 0 {
					continue
				}
				g := NewFGraph(info, fd.Body, nil)
				dom := g.Dominators()
				for _, rn := range rd {
					// skip the selector that is the write target itself
					isTarget := false
					for _, w := range wr {
						for _, l := range w.(*ast.AssignStmt).Lhs {
							if ast.Unparen(l) == rn {
								isTarget = true
							}
						}
					}
					if isTarget {
						continue
					}
					rb, ri := g.BlockOf(rn)
					dominated := false
					for _, w := range wr {
						wb, wi := g.BlockOf(w)
						if wb == nil || rb == nil {
							continue
						}
						// the write must assign a fresh composite literal
						as := w.(*ast.AssignStmt)
						fresh := false
						for _, rhs := range as.Rhs {
							if u, ok := ast.Unparen(rhs).(*ast.UnaryExpr); ok && u.Op == token.AND {
								if _, ok := ast.Unparen(u.X).(*ast.CompositeLit); ok {
									fresh = true
								}
							}
						}
						if fresh && ((wb == rb && wi < ri) || (wb != rb && dom[rb][wb])) {
							dominated = true
						}
					}
					if !dominated {
						okAll = false
						detail = "read in " + fd.Name.Name + " at " + p.Position(rn.Pos()) + " is not dominated by an assignment of a fresh value in that function"
					}
				}
			}
			r.Check(okAll, "R08a", key, fv.Pos(), "fresh before every use: "+why, detail+": state from a previous Print can be observed")
			r.Except(key, "fresh-in-function: "+why)
			continue
		}
		if why, ok := spec.gated[fv.Name()]; ok {
			ok2, how := stateGatedProof(p, pkg, "syntax", st, fv, resetFD)
			if how == "" {
				how = why
			}
			r.Check(ok2, "R08a", key, fv.Pos(), "written before read (proved by state gating): "+how,
				"the field is not reset; it used to be proved that it is only read in one lexer state and that every switch into that state first assigns it a fresh value, and that proof no longer goes through: a value left by an earlier use (an input that ended inside that state) can be read")
			continue
		}
		if why, ok := spec.beforeRead[fv.Name()]; ok {
			// Mechanical part 1: the interprocedural must-write-before-read analysis (wbr.go) proves it outright when no
			// path from an entry point reads the field first. It cannot see value correlations such as "the parser only
			// reads pos for tokens for which next() stored it", so when it fails the entry stays a reasoned exception —
			// with mechanical part 2: the field is assigned a value that does not depend on its old one somewhere outside
			// reset() and the options. A field that is only ever incremented, decremented or or-ed carries what the
			// previous use left in it.
			witness := readFirstWitness(p, pkg, "syntax", spec.typeName, spec.entries, fv)
			if witness == "" {
				r.OK("R08a", key, fv.Pos(), "written before read on every path from every entry point (proved): "+why)
				continue
			}
			r.Notef("R08a: %s is not proved written before read outright; a path that may read it first: %s", key, witness)
			if ok, how := stateGatedProof(p, pkg, "syntax", st, fv, resetFD); ok {
				r.OK("R08a", key, fv.Pos(), "written before read (proved by state gating): "+how)
				continue
			}
			plain := 0
			for _, fd := range p.AllFuncDecls("syntax") {
				if fd == resetFD {
					continue
				}
				ast.Inspect(fd.Body, func(n ast.Node) bool {
					as, ok := n.(*ast.AssignStmt)
					if !ok || as.Tok != token.ASSIGN || len(as.Lhs) != len(as.Rhs) {
						return true
					}
					for i, l := range as.Lhs {
						if selectorField(info, l) != fv {
							continue
						}
						selfRef := false
						ast.Inspect(as.Rhs[i], func(m ast.Node) bool {
							if se, ok := m.(*ast.SelectorExpr); ok && selectorField(info, se) == fv {
								selfRef = true
							}
							return true
						})
						if !selfRef {
							plain++
						}
					}
					return true
				})
			}
			// Mechanical part 3: a function that gives the field its fresh value does not look at the old one first. The
			// reason given for these fields is "the producer stores it before anyone reads it"; a read in the producer
			// itself, on a path that has not passed the store, is a read of what the previous input left there.
			if stale := readsBeforeOwnStore(p, pkg, fv); stale != "" {
				r.Bad("R08a", key, fv.Pos(), "the field is not reset, on the ground that "+why+"; but "+stale+": on a parser that was used before, that is the value the previous input left")
				continue
			}
			r.Check(plain > 0, "R08a", key, fv.Pos(), fmt.Sprintf("written before read (reasoned; %d assignments of a fresh value outside reset): %s", plain, why),
				"the field is not reset and is never assigned a value that does not depend on its old one (only incremented, decremented or updated in place): what an earlier use — one that ended in an error, say — left in it is the starting value of the next use")
			r.Except(key, "written-before-read: "+why)
			continue
		}
		nr := len(reads[fv])
		r.Undecided("R08a", key, fv.Pos(), fmt.Sprintf("field is neither assigned in reset() nor classified (configuration / entry-set / scratch / written before read); it has %d writes and %d reads: state from a previous use can leak into the next", len(ws), nr))
	}

	// ---- R08b
	var recvName = func(fd *ast.FuncDecl) types.Object {
		if fd.Recv != nil && len(fd.Recv.List[0].Names) == 1 {
			return info.Defs[fd.Recv.List[0].Names[0]]
		}
		return nil
	}
	for _, fd := range entryFDs {
		key := fmt.Sprintf("syntax.(%s).%s#reset first", spec.typeName, fd.Name.Name)
		g := NewFGraph(info, fd.Body, nil)
		dom := g.Dominators()
		resets := findCalls(g, func(c *ast.CallExpr) bool { return calleeOf(info, c) == resetFn })
		if len(resets) != 1 {
			r.Bad("R08b", key, fd.Pos(), fmt.Sprintf("%d calls of reset() (want exactly one)", len(resets)))
			continue
		}
		recv := recvName(fd)
		ok := true
		why := ""
		for _, b := range g.Blocks {
			for i, n := range b.Nodes {
				touches := false
				inspectNoLit(n, func(x ast.Node) bool {
					switch y := x.(type) {
					case *ast.AssignStmt:
						for _, l := range y.Lhs {
							if se, isSel := ast.Unparen(l).(*ast.SelectorExpr); isSel {
								if id, isId := ast.Unparen(se.X).(*ast.Ident); isId && info.Uses[id] == recv {
									touches = true
								}
							}
						}
					case *ast.CallExpr:
						if se, isSel := ast.Unparen(y.Fun).(*ast.SelectorExpr); isSel {
							if id, isId := ast.Unparen(se.X).(*ast.Ident); isId && info.Uses[id] == recv && calleeOf(info, y) != resetFn {
								touches = true
							}
						}
					}
					return true
				})
				if touches && !before(dom, resets[0], callSite{nil, b, i}) && !(b == resets[0].blk && i == resets[0].idx) {
					ok = false
					why = "statement at " + p.Position(n.Pos()) + " uses the receiver before reset()"
				}
			}
		}
		r.Check(ok, "R08b", key, fd.Pos(), "reset() dominates every other use of the receiver", why)
	}
	for _, wname := range spec.wrappers {
		fd := p.FuncDecl("syntax", spec.typeName+"."+wname)
		if fd == nil {
			r.Notef("R08b: wrapper %s.%s no longer exists", spec.typeName, wname)
			continue
		}
		key := fmt.Sprintf("syntax.(%s).%s#goes through the entry points", spec.typeName, wname)
		bad := ""
		ast.Inspect(fd.Body, func(n ast.Node) bool {
			switch x := n.(type) {
			case *ast.CallExpr:
				if fn := calleeOf(info, x); fn != nil && !fn.Exported() {
					if sig := fn.Type().(*types.Signature); sig.Recv() != nil && namedOf(sig.Recv().Type()) == st {
						bad = "calls unexported method " + fn.Name()
					}
				}
			case *ast.AssignStmt:
				for _, l := range x.Lhs {
					if fv := selectorField(info, l); fv != nil {
						for i := 0; i < sstruct.NumFields(); i++ {
							if sstruct.Field(i) == fv {
								bad = "writes field " + fv.Name()
							}
						}
					}
				}
			}
			return true
		})
		r.Check(bad == "", "R08b", key, fd.Pos(), "no unexported parser method called, no parser field written", "convenience entry point "+bad+" directly: it can run on un-reset state")
	}
	// every exported method is classified
	known := map[string]bool{}
	for _, e := range spec.entries {
		known[e] = true
	}
	for _, e := range spec.wrappers {
		known[e] = true
	}
	for m := range st.Methods() {
		if m.Exported() && !known[m.Name()] {
			r.Undecided("R08b", fmt.Sprintf("syntax.(%s).%s#unclassified entry point", spec.typeName, m.Name()), m.Pos(), "exported method is neither a resetting entry point nor a wrapper in the checker's table")
		}
	}
}

func checkSiblingEntries(p *Prog, r *Result, pkg *packages.Package) {
	info := pkg.TypesInfo
	parserT := lookupType(pkg, "Parser")
	declsByObj := newFuncGraphs(pkg)
	// a helper whose body is a straight line of simple statements stands for the calls it makes
	straightLine := func(fn *types.Func) *ast.FuncDecl {
		hd := declsByObj.decls[fn.Origin()]
		if hd == nil || hd.Body == nil {
			return nil
		}
		for _, st := range hd.Body.List {
			switch st.(type) {
			case *ast.ExprStmt, *ast.IncDecStmt, *ast.AssignStmt:
			default:
				return nil
			}
		}
		return hd
	}
	var seqDepth func(fd *ast.FuncDecl, depth int) []string
	seqDepth = func(fd *ast.FuncDecl, depth int) []string {
		var out []string
		ast.Inspect(fd.Body, func(n ast.Node) bool {
			c, ok := n.(*ast.CallExpr)
			if !ok {
				return true
			}
			fn := calleeOf(info, c)
			if fn == nil || fn.Exported() {
				return true
			}
			if sig := fn.Type().(*types.Signature); sig.Recv() != nil && namedOf(sig.Recv().Type()) == parserT {
				name := fn.Name()
				if name == "stmtList" {
					name = "stmts"
				}
				if hd := straightLine(fn); hd != nil && depth < 3 {
					if inner := seqDepth(hd, depth+1); len(inner) > 0 {
						out = append(out, inner...)
						return true
					}
				}
				out = append(out, name)
			}
			return true
		})
		return out
	}
	seq := func(fd *ast.FuncDecl) []string { return seqDepth(fd, 0) }
	a, b := p.FuncDecl("syntax", "Parser.Parse"), p.FuncDecl("syntax", "Parser.StmtsSeq")
	if a == nil || b == nil {
		r.Fatalf("anchors Parser.Parse / Parser.StmtsSeq not found")
		return
	}
	sa, sb := strings.Join(seq(a), " → "), strings.Join(seq(b), " → ")
	r.Check(sa == sb && strings.Contains(sa, "doHeredocs"), "R08c", "syntax.(Parser).Parse|StmtsSeq#same call sequence", a.Pos(), "both: "+sa,
		fmt.Sprintf("Parse runs [%s] but StmtsSeq runs [%s]: one API misses a step the other performs (for example the heredoc-at-EOF epilogue)", sa, sb))
	// doHeredocs guarded by p.err == nil in both
	guarded := func(fd *ast.FuncDecl) bool {
		ok := false
		var file *ast.File
		for _, f := range pkg.Syntax {
			if f.Pos() <= fd.Pos() && fd.End() <= f.End() {
				file = f
			}
		}
		ast.Inspect(fd.Body, func(n ast.Node) bool {
			c, isCall := n.(*ast.CallExpr)
			if !isCall {
				return true
			}
			if fn := calleeOf(info, c); fn != nil && (fn.Name() == "doHeredocs" || func() bool {
				hd := straightLine(fn)
				return hd != nil && slices.Contains(seqDepth(hd, 1), "doHeredocs")
			}()) {
				for _, a := range positiveAtoms(enclosingConds(file, c)) {
					if be, ok2 := ast.Unparen(a).(*ast.BinaryExpr); ok2 && be.Op == token.EQL && isNilIdent(info, be.Y) {
						if fv := selectorField(info, be.X); fv != nil && fv.Name() == "err" {
							ok = true
						}
					}
				}
			}
			return true
		})
		return ok
	}
	r.Check(guarded(a) && guarded(b), "R08c", "syntax.(Parser).Parse|StmtsSeq#heredoc epilogue under err == nil", a.Pos(), "both call doHeredocs only when no error was recorded",
		"the heredoc epilogue is not guarded by p.err == nil in both entry points")
}

func checkCounters(p *Prog, r *Result, pkg *packages.Package) {
	info := pkg.TypesInfo
	fg := newFuncGraphs(pkg)
	errPass := lookupFunc(pkg, "Parser.errPass")
	me := map[*types.Func]bool{}
	if errPass != nil {
		me = computeMustError(fg, errPass)
	}
	counters := map[string]bool{"openNodes": true, "openBquotes": true, "openBquoteDbls": true}
	var fos []*types.Func
	for fo := range fg.decls {
		fos = append(fos, fo)
	}
	sort.Slice(fos, func(i, j int) bool { return fos[i].Pos() < fos[j].Pos() })
	n := 0
	for _, fo := range fos {
		fd := fg.decls[fo]
		var file *ast.File
		for _, f := range pkg.Syntax {
			if f.Pos() <= fd.Pos() && fd.End() <= f.End() {
				file = f
			}
		}
		var incs []*ast.IncDecStmt
		inspectNoLit(fd.Body, func(nd ast.Node) bool {
			if s, ok := nd.(*ast.IncDecStmt); ok && s.Tok == token.INC {
				if fv := selectorField(info, s.X); fv != nil && counters[fv.Name()] {
					incs = append(incs, s)
				}
			}
			return true
		})
		if len(incs) == 0 {
			continue
		}
		g := fg.graph(fo)
		for _, inc := range incs {
			n++
			fv := selectorField(info, inc.X)
			key := funcObjKey(fo) + "#" + fv.Name() + "++"
			blk, idx := g.BlockOf(inc)
			if blk == nil {
				r.Undecided("R08d", key, inc.Pos(), "increment not found in the control-flow graph")
				continue
			}
			// guard of the increment, if any: the decrement may sit under the same test
			var guard string
			for _, c := range enclosingConds(file, inc) {
				if c.Expr != nil && c.Pos {
					guard = exprString(c.Expr)
				}
			}
			isDec := func(nd ast.Node) bool {
				if s, ok := nd.(*ast.IncDecStmt); ok && s.Tok == token.DEC && selectorField(info, s.X) == fv {
					return true
				}
				return false
			}
			ok, _ := g.MustPass(blk, idx, g.Exit, isDec, func(e *FEdge) bool {
				// infeasible: the same guard evaluating to false later (its operands are not reassigned: checked below)
				return guard != "" && e.Cond != nil && !e.Pol && exprString(e.Cond) == guard
			})
			if ok && guard != "" {
				// operands of the guard must not be assigned in the function
				assigned := false
				ast.Inspect(fd.Body, func(nd ast.Node) bool {
					if as, isAs := nd.(*ast.AssignStmt); isAs && as.Tok == token.ASSIGN {
						for _, l := range as.Lhs {
							if strings.Contains(guard, exprString(l)) && len(exprString(l)) > 2 {
								assigned = true
							}
						}
					}
					return true
				})
				if assigned {
					ok = false
				}
			}
			r.Check(ok, "R08d", key, inc.Pos(), "every path from the increment to the function exit passes the matching decrement",
				"some path returns with "+fv.Name()+" still incremented: Incomplete()/backquote tracking stays wrong for the rest of the input (and for InteractiveSeq, which keeps reporting an unfinished statement)")
		}
	}
	_ = me
	if n == 0 {
		r.Notef("R08d: no counter increments found")
	}
}

var c08Controls = []Control{
	{Name: "reader-wrapper-hands-over-a-line-and-drops-its-length", Rule: "R08j", WantKey: "readLine#copy 1 into p", File: "syntax/parser.go",
		Mutate: ctlChain(ctlReplaceAnywhere("\treturn w.rd.Read(p)\n}\n", "\treturn w.readLine(p)\n}\n"),
			ctlReplaceAnywhere("\tlastLine    int64\n", "\tpending     []byte\n\tbuf         [bufSize]byte\n\tlastLine    int64\n"),
			ctlAppendDecl("func (w *wrappedReader) readLine(p []byte) (int, error) {\n\tif len(w.pending) == 0 {\n\t\tn, err := w.rd.Read(w.buf[:])\n\t\tw.pending = w.buf[:n]\n\t\tif n == 0 {\n\t\t\treturn 0, err\n\t\t}\n\t}\n\tline := w.pending\n\tfor i, b := range line {\n\t\tif b == '\\n' {\n\t\t\tline = line[:i+1]\n\t\t\tbreak\n\t\t}\n\t}\n\tw.pending = w.pending[len(line):]\n\treturn copy(p, line), nil\n}\n"))},
	{Name: "newline-after-the-last-stop-word-consumed", Rule: "R08h", WantKey: "doHeredocs#nothing is read once the last body is stored", File: "syntax/parser.go",
		Mutate: ctlReplaceAnywhere("\t\tp.hdocStops = p.hdocStops[:len(p.hdocStops)-1]\n\t}\n\tp.quote = old\n", "\t\tp.hdocStops = p.hdocStops[:len(p.hdocStops)-1]\n\t\tif p.r == '\\n' {\n\t\t\tp.rune()\n\t\t}\n\t}\n\tp.quote = old\n")},
	{Name: "start-of-input-told-by-the-last-token-position", Rule: "R08a", WantKey: "Parser.pos", File: "syntax/lexer.go",
		Mutate: ctlReplaceAnywhere("(p.spaced || p.tok == illegalTok || p.stopToken())", "(p.spaced || !p.pos.IsValid() || p.stopToken())")},
	{Name: "body-reader-reads-without-a-body-pending", Rule: "R08h", WantKey: "letClause#call 1 of doHeredocs", File: "syntax/parser.go",
		Mutate: ctlReplaceAnywhere("\thdocs := p.heredocs[p.buriedHdocs:]\n\tif len(hdocs) == 0 {\n\t\t// Nothing do do; don't even issue a read.\n\t\treturn\n\t}\n", "\thdocs := p.heredocs[p.buriedHdocs:]\n")},
	{Name: "interactive-drops-last-line", Rule: "R08f", WantKey: "accumulated statements are yielded", File: "syntax/parser.go",
		Mutate: ctlReplaceAnywhere("\t\tif !w.stopped && p.err == nil && len(w.accumulated) > 0 {\n\t\t\tyield(w.accumulated, nil)\n\t\t}\n", "")},
	{Name: "regexp-paren-count-set-after-state-switch", Rule: "R08a", WantKey: "Parser.rxOpenParens", File: "syntax/parser.go",
		Mutate: ctlReplaceAnywhere("\t\tp.rxOpenParens = 0\n\t\tp.rxFirstPart = true\n", "\t\tp.rxFirstPart = true\n")},
	{Name: "printer-semicolon-flag-not-reset", Rule: "R08a", WantKey: "Printer.wroteSemi", File: "syntax/printer.go",
		Mutate: ctlReplaceAnywhere("\tp.nestedBinary = false\n\tp.wroteSemi = false\n", "\tp.nestedBinary = false\n")},
	{Name: "reset-forgets-litBs", Rule: "R08a", WantKey: "Parser.litBs", File: "syntax/parser.go",
		Mutate: ctlReplace("Parser.reset", "p.litBs = nil", "", 0)},
	{Name: "reset-forgets-buriedHdocs", Rule: "R08a", WantKey: "Parser.buriedHdocs", File: "syntax/parser.go",
		Mutate: ctlReplace("Parser.reset", "p.heredocs, p.buriedHdocs = p.heredocs[:0], 0", "p.heredocs = p.heredocs[:0]", 0)},
	{Name: "new-unreset-field", Rule: "R08a", WantKey: "Parser.stopped", File: "syntax/parser.go",
		Mutate: ctlReplaceAnywhere("\tforbidNested bool\n", "\tforbidNested bool\n\tstopped      bool\n")},
	{Name: "printer-reset-forgets-nestedBinary", Rule: "R08a", WantKey: "Printer.nestedBinary", File: "syntax/printer.go",
		Mutate: ctlReplace("Printer.reset", "p.nestedBinary = false", "", 0)},
	{Name: "tabsPrinter-allocated-once", Rule: "R08a", WantKey: "Printer.tabsPrinter", File: "syntax/printer.go",
		Mutate: ctlReplace("Printer.flushHeredocs", "p.tabsPrinter.wordParts(r.Hdoc.Parts, true)", "p.tabsPrinter.wordParts(r.Hdoc.Parts, true)\n\t\t\t} else if p.tabsPrinter != nil {\n\t\t\t\tp.tabsPrinter.wordParts(nil, true)", 0)},
	{Name: "entry-writes-before-reset", Rule: "R08b", WantKey: "Document#reset first", File: "syntax/parser.go",
		Mutate: ctlReplace("Parser.Document", "p.reset()", "p.parsingDoc = true\n\tp.reset()", 0)},
	{Name: "stmtsseq-drops-heredoc-epilogue", Rule: "R08c", WantKey: "same call sequence", File: "syntax/parser.go",
		Mutate: ctlReplaceAnywhere("\t\t\tp.openNodes++\n\t\t\tp.doHeredocs()\n\t\t\tp.openNodes--\n", "")},
	{Name: "openNodes-early-return", Rule: "R08d", WantKey: "wordParts#openNodes++", File: "syntax/parser.go",
		Mutate: ctlReplace("Parser.wordParts", "p.openNodes--", "if n == nil && len(wps) == 0 {\n\t\t\treturn nil\n\t\t}\n\t\tp.openNodes--", 0)},
}

// stateFreeExpr reports whether e is built from literals, composite literals, conversions and make/new alone: it names
// no variable at all, so it cannot depend on an earlier use of the receiver.
func stateFreeExpr(info *types.Info, e ast.Expr) bool {
	ok := true
	ast.Inspect(e, func(n ast.Node) bool {
		switch n := n.(type) {
		case *ast.Ident:
			switch o := info.ObjectOf(n).(type) {
			case *types.Var:
				if !o.IsField() { // field names appear as keys of composite literals
					ok = false
				}
			case *types.Func:
				ok = false
			}
		case *ast.SelectorExpr:
			if _, isVar := info.ObjectOf(n.Sel).(*types.Var); isVar { // a field read or a package-level variable
				ok = false
			}
		case *ast.CallExpr:
			if tv, has := info.Types[n.Fun]; has && tv.IsType() {
				return true
			}
			if id, isID := ast.Unparen(n.Fun).(*ast.Ident); isID {
				if b, isB := info.ObjectOf(id).(*types.Builtin); isB && (b.Name() == "make" || b.Name() == "new") {
					return true
				}
			}
			ok = false
		case *ast.FuncLit:
			ok = false
		}
		return ok
	})
	return ok
}

// readsBeforeOwnStore: in a function of the lexer that assigns fv a value not derived from fv, a read of fv that can be reached from
// the function's entry without passing such an assignment. "" when there is none.
func readsBeforeOwnStore(p *Prog, pkg *packages.Package, fv *types.Var) string {
	info := pkg.TypesInfo
	for _, fd := range p.AllFuncDecls("syntax") {
		if fd.Body == nil || fd.Name.Name == "reset" || !strings.HasSuffix(p.Fset.Position(fd.Pos()).Filename, "/lexer.go") {
			continue // the producers are the lexer's functions; the parser's functions adjust what the lexer stored
		}
		isFresh := func(n ast.Node) bool {
			as, ok := n.(*ast.AssignStmt)
			if !ok || as.Tok != token.ASSIGN || len(as.Lhs) != len(as.Rhs) {
				return false
			}
			for i, l := range as.Lhs {
				if selectorField(info, l) != fv {
					continue
				}
				self := false
				ast.Inspect(as.Rhs[i], func(m ast.Node) bool {
					if se, ok := m.(*ast.SelectorExpr); ok && selectorField(info, se) == fv {
						self = true
					}
					return true
				})
				if !self {
					return true
				}
			}
			return false
		}
		has := false
		inspectNoLit(fd.Body, func(n ast.Node) bool {
			if isFresh(n) {
				has = true
			}
			return true
		})
		if !has {
			continue
		}
		g := NewFGraph(info, fd.Body, nil)
		stale := ""
		lhs := map[ast.Expr]bool{}
		inspectNoLit(fd.Body, func(n ast.Node) bool {
			if as, ok := n.(*ast.AssignStmt); ok {
				for _, l := range as.Lhs {
					lhs[ast.Unparen(l)] = true
				}
			}
			return true
		})
		inspectNoLit(fd.Body, func(n ast.Node) bool {
			se, ok := n.(*ast.SelectorExpr)
			if !ok || selectorField(info, se) != fv || lhs[se] || stale != "" {
				return true
			}
			blk := blockContaining(g, se)
			if blk == nil {
				return true
			}
			// the node holding the read, and whether every path to it passed a fresh store
			idx := -1
			for i, nd := range blk.Nodes {
				if nd.Pos() <= se.Pos() && se.End() <= nd.End() {
					idx = i
				}
			}
			passed, _ := g.MustPass(g.Entry, -1, blk, isFresh, nil)
			if !passed {
				for i := 0; i < idx; i++ {
					if isFresh(blk.Nodes[i]) {
						passed = true
					}
				}
			}
			if !passed {
				stale = fmt.Sprintf("%s reads it at %s on a path that has not stored it yet", funcKey("syntax", fd), p.Position(se.Pos()))
			}
			return true
		})
		if stale != "" {
			return stale
		}
	}
	return ""
}
