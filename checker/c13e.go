package main

import (
	"fmt"
	"go/ast"
	"go/constant"
	"go/token"
	"go/types"
	"regexp"
	"strconv"
)

// R13e: writer/reader agreement for the $'…' escapes. Quote writes `\a`-style escapes as string constants and
// `\xNN`/`\uNNNN`/`\UNNNNNNNN` through fixed-width formats; the expansion side (the escape switch of package expand)
// reads at most a maximum number of hexadecimal digits per letter. A fixed width below the reader's maximum lets the
// reader swallow hexadecimal characters that follow the escape; a letter the reader has no case for is kept verbatim.
func checkEscapeAgreement(p *Prog, r *Result, rule string) {
	syn, exp := p.Pkg("syntax"), p.Pkg("expand")
	fd := p.FuncDecl("syntax", "Quote")
	if syn == nil || exp == nil || fd == nil {
		r.Fatalf("anchors syntax.Quote / package expand not found")
		return
	}
	sinfo, einfo := syn.TypesInfo, exp.TypesInfo
	// ---- reader: the switch in package expand with a clause listing 'U'
	type reader struct {
		sw      *ast.SwitchStmt
		fd      *ast.FuncDecl
		letters map[int64]*ast.CaseClause
		width   map[int64]int64
	}
	var rd *reader
	charOf := func(info *types.Info, e ast.Expr) (int64, bool) {
		tv, ok := info.Types[e]
		if !ok || tv.Value == nil || tv.Value.Kind() != constant.Int {
			return 0, false
		}
		v, ok := constant.Int64Val(tv.Value)
		return v, ok
	}
	for _, efd := range p.AllFuncDecls("expand") {
		ast.Inspect(efd.Body, func(n ast.Node) bool {
			sw, ok := n.(*ast.SwitchStmt)
			if !ok || sw.Tag == nil || rd != nil {
				return true
			}
			letters := map[int64]*ast.CaseClause{}
			for _, s := range sw.Body.List {
				cc := s.(*ast.CaseClause)
				for _, e := range cc.List {
					if v, ok := charOf(einfo, e); ok {
						letters[v] = cc
					}
				}
			}
			if letters['U'] == nil || letters['x'] == nil || letters['n'] == nil {
				return true
			}
			rd = &reader{sw: sw, fd: efd, letters: letters, width: map[int64]int64{}}
			return true
		})
	}
	if rd == nil {
		r.Undecided(rule, "expand#escape switch", token.NoPos, "no switch with cases for 'x', 'U' and 'n' found in package expand: the reader of $'…' escapes cannot be located")
		return
	}
	// widths: within the clause of 'U': first `v := K`, nested switch assigning `v = K'` per letter
	{
		cc := rd.letters['U']
		var wvar types.Object
		var def int64
		for _, s := range cc.Body {
			if as, ok := s.(*ast.AssignStmt); ok && as.Tok == token.DEFINE && len(as.Lhs) == 1 && len(as.Rhs) == 1 && wvar == nil {
				if v, ok := charOf(einfo, as.Rhs[0]); ok {
					if id, ok := as.Lhs[0].(*ast.Ident); ok {
						wvar, def = einfo.ObjectOf(id), v
					}
				}
			}
		}
		if wvar != nil {
			for l, c := range rd.letters {
				if c == cc {
					rd.width[l] = def
				}
			}
			used := false
			for _, s := range cc.Body {
				ast.Inspect(s, func(n ast.Node) bool {
					switch x := n.(type) {
					case *ast.SwitchStmt:
						for _, s2 := range x.Body.List {
							c2 := s2.(*ast.CaseClause)
							for _, st := range c2.Body {
								if as, ok := st.(*ast.AssignStmt); ok && as.Tok == token.ASSIGN && len(as.Lhs) == 1 {
									if id, ok := as.Lhs[0].(*ast.Ident); ok && einfo.ObjectOf(id) == wvar {
										if v, ok := charOf(einfo, as.Rhs[0]); ok {
											for _, e := range c2.List {
												if l, ok := charOf(einfo, e); ok {
													rd.width[l] = v
												}
											}
										}
									}
								}
							}
						}
					case *ast.CallExpr:
						for _, a := range x.Args {
							if id, ok := ast.Unparen(a).(*ast.Ident); ok && einfo.ObjectOf(id) == wvar {
								used = true
							}
						}
					}
					return true
				})
			}
			if !used {
				rd.width = map[int64]int64{}
			}
		}
	}
	// ---- writer
	fmtRe := regexp.MustCompile(`^\\([A-Za-z])%0(\d+)x$`)
	litRe := regexp.MustCompile(`^\\([a-z])$`)
	n := 0
	ast.Inspect(fd.Body, func(nd ast.Node) bool {
		call, ok := nd.(*ast.CallExpr)
		if !ok {
			return true
		}
		for _, a := range call.Args {
			tv, ok := sinfo.Types[a]
			if !ok || tv.Value == nil || tv.Value.Kind() != constant.String {
				continue
			}
			s := constant.StringVal(tv.Value)
			if m := fmtRe.FindStringSubmatch(s); m != nil {
				n++
				letter := int64(m[1][0])
				w, _ := strconv.ParseInt(m[2], 10, 64)
				key := fmt.Sprintf("syntax.Quote#escape \\%s width %d", m[1], w)
				cc := rd.letters[letter]
				max, known := rd.width[letter]
				switch {
				case cc == nil:
					r.Bad(rule, key, call.Pos(), fmt.Sprintf("Quote writes \\%s escapes but the reader's escape switch (%s) has no case for %q: the escape is expanded verbatim", m[1], funcKey("expand", rd.fd), m[1]))
				case !known:
					r.Undecided(rule, key, call.Pos(), "the reader's maximum number of digits for this letter could not be read off its clause")
				default:
					r.Check(w == max, rule, key, call.Pos(), fmt.Sprintf("the reader takes at most %d hexadecimal digits after \\%s: exactly what is written", max, m[1]),
						fmt.Sprintf("Quote writes %d hexadecimal digits after \\%s but the reader takes up to %d: hexadecimal characters following the escape in the string are swallowed into it (or the value is cut short)", w, m[1], max))
				}
			} else if m := litRe.FindStringSubmatch(s); m != nil {
				n++
				letter := int64(m[1][0])
				key := fmt.Sprintf("syntax.Quote#escape \\%s", m[1])
				rcc := rd.letters[letter]
				if rcc == nil {
					r.Bad(rule, key, call.Pos(), fmt.Sprintf("Quote writes \\%s but the reader's escape switch has no case for %q", m[1], m[1]))
					continue
				}
				// the rune the writer's clause is for, and the byte the reader's clause writes
				var wr, rr int64 = -1, -2
				ast.Inspect(fd.Body, func(x ast.Node) bool {
					cc, ok := x.(*ast.CaseClause)
					if !ok || !(cc.Pos() <= call.Pos() && call.End() <= cc.End()) || len(cc.List) != 1 {
						return true
					}
					if b, ok := ast.Unparen(cc.List[0]).(*ast.BinaryExpr); ok && b.Op == token.EQL {
						if v, ok := charOf(sinfo, b.Y); ok {
							wr = v
						}
					}
					return true
				})
				for _, st := range rcc.Body {
					ast.Inspect(st, func(x ast.Node) bool {
						if c, ok := x.(*ast.CallExpr); ok && len(c.Args) == 1 {
							if v, ok := charOf(einfo, c.Args[0]); ok {
								rr = v
							}
						}
						return true
					})
				}
				r.Check(wr == rr, rule, key, call.Pos(), fmt.Sprintf("written for rune %d, which is the byte the reader's clause for %q writes", wr, m[1]),
					fmt.Sprintf("Quote writes \\%s for rune %d but the reader's clause for %q writes byte %d", m[1], wr, m[1], rr))
			}
		}
		return true
	})
	// runes Quote protects with a backslash followed by the rune itself (`'` and `\\` inside $'…'): the reader's clause
	// for that rune must write the rune and nothing else — no backslash, under no condition
	ast.Inspect(fd.Body, func(nd ast.Node) bool {
		cc, ok := nd.(*ast.CaseClause)
		if !ok || len(cc.Body) < 2 {
			return true
		}
		var runes []int64
		for _, e := range cc.List {
			if b, ok := ast.Unparen(e).(*ast.BinaryExpr); ok && b.Op == token.EQL {
				if v, ok := charOf(sinfo, b.Y); ok {
					runes = append(runes, v)
				}
			}
		}
		if len(runes) == 0 {
			return true
		}
		// body: write '\\' then write the rune variable
		first, isExpr := cc.Body[0].(*ast.ExprStmt)
		if !isExpr {
			return true
		}
		c0, isCall := first.X.(*ast.CallExpr)
		if !isCall || len(c0.Args) != 1 {
			return true
		}
		if v, ok := charOf(sinfo, c0.Args[0]); !ok || v != '\\' {
			return true
		}
		second, isExpr := cc.Body[1].(*ast.ExprStmt)
		if !isExpr {
			return true
		}
		c1, isCall := second.X.(*ast.CallExpr)
		if !isCall || len(c1.Args) != 1 {
			return true
		}
		if _, isConst := charOf(sinfo, c1.Args[0]); isConst {
			return true
		}
		for _, rn := range runes {
			n++
			key := fmt.Sprintf("syntax.Quote#escape backslash + %q", string(rune(rn)))
			rcc := rd.letters[rn]
			if rcc == nil {
				r.Bad(rule, key, cc.Pos(), fmt.Sprintf("Quote writes a backslash before %q inside $'…' but the reader's escape switch has no case for it", string(rune(rn))))
				continue
			}
			writesBackslash := false
			for _, st := range rcc.Body {
				ast.Inspect(st, func(x ast.Node) bool {
					if c, ok := x.(*ast.CallExpr); ok {
						for _, a := range c.Args {
							if v, ok := charOf(einfo, a); ok && v == '\\' {
								writesBackslash = true
							}
						}
					}
					return true
				})
			}
			r.Check(!writesBackslash, rule, key, cc.Pos(), "the reader's clause writes the character itself and no backslash",
				fmt.Sprintf("the reader's clause for %q can write a backslash as well: what Quote escaped as \\%s comes back with the backslash", string(rune(rn)), string(rune(rn))))
		}
		return true
	})
	if n == 0 {
		r.Undecided(rule, "syntax.Quote#escapes", fd.Pos(), "no escape constants found in Quote")
	}
}

// R13g: utf8.DecodeRune* returns RuneError both for an invalid byte (width 1) and for a correctly encoded U+FFFD
// (width 3). In Quote, every test `r == utf8.RuneError` must therefore be conjoined with a test of the width against 1:
// otherwise a valid, printable string is refused for POSIX, or bytes are dropped when the rune is escaped as one byte.
func checkRuneErrorWidth(p *Prog, r *Result, rule string) {
	pkg := p.Pkg("syntax")
	info := pkg.TypesInfo
	fd := p.FuncDecl("syntax", "Quote")
	if fd == nil {
		return
	}
	isRuneError := func(e ast.Expr) bool {
		sel, ok := ast.Unparen(e).(*ast.SelectorExpr)
		if !ok || sel.Sel.Name != "RuneError" {
			return false
		}
		c, ok := info.ObjectOf(sel.Sel).(*types.Const)
		return ok && c.Pkg() != nil && c.Pkg().Path() == "unicode/utf8"
	}
	isWidthTest := func(e ast.Expr) bool {
		found := false
		ast.Inspect(e, func(n ast.Node) bool {
			b, ok := n.(*ast.BinaryExpr)
			if !ok || b.Op != token.EQL {
				return true
			}
			for _, pair := range [][2]ast.Expr{{b.X, b.Y}, {b.Y, b.X}} {
				if tv, ok := info.Types[pair[1]]; ok && tv.Value != nil && tv.Value.ExactString() == "1" {
					if t := info.TypeOf(pair[0]); t != nil {
						if bt, ok := t.Underlying().(*types.Basic); ok && bt.Info()&types.IsInteger != 0 {
							found = true
						}
					}
				}
			}
			return true
		})
		return found
	}
	n := 0
	var walk func(e ast.Expr, conj []ast.Expr)
	walk = func(e ast.Expr, conj []ast.Expr) {
		switch x := ast.Unparen(e).(type) {
		case *ast.BinaryExpr:
			switch x.Op {
			case token.LAND:
				walk(x.X, append(conj[:len(conj):len(conj)], x.Y))
				walk(x.Y, append(conj[:len(conj):len(conj)], x.X))
				return
			case token.LOR:
				walk(x.X, conj)
				walk(x.Y, conj)
				return
			case token.EQL:
				if isRuneError(x.X) || isRuneError(x.Y) {
					n++
					ok := false
					for _, c := range conj {
						if isWidthTest(c) {
							ok = true
						}
					}
					key := fmt.Sprintf("syntax.Quote#%s with a width test", exprString(x))
					if n > 1 {
						key += fmt.Sprintf("#%d", n)
					}
					r.Check(ok, rule, key, x.Pos(), "conjoined with a test of the decoded width against 1",
						"a decoded rune is compared with utf8.RuneError without testing that its width is 1: a correctly encoded U+FFFD is handled as an invalid byte (refused for POSIX, or escaped as one byte with the other two dropped)")
				}
			}
		case *ast.UnaryExpr:
			// under a negation the conjunct structure flips; only descend
			walk(x.X, nil)
		}
	}
	ast.Inspect(fd.Body, func(nd ast.Node) bool {
		switch x := nd.(type) {
		case *ast.IfStmt:
			walk(x.Cond, nil)
		case *ast.CaseClause:
			for _, e := range x.List {
				walk(e, nil)
			}
		}
		return true
	})
	if n == 0 {
		r.Notef("%s: Quote does not compare with utf8.RuneError", rule)
	}
}

// R13h: Quote has four ways of answering: the string itself (R13b), the $'…' form, single quotes around a string
// without single quotes, and the double-quote fallback. Every non-error return is one of those shapes — the parameter,
// a builder's String(), or `'` + parameter + `'` — and the last builder return (the double-quote fallback) is reached
// only through the escaping loop: a shortcut that wraps the string in double quotes without visiting every rune leaves
// backslashes, and with them the closing quote, unprotected.
func checkQuoteReturns(p *Prog, r *Result, rule string) {
	pkg := p.Pkg("syntax")
	info := pkg.TypesInfo
	fd := p.FuncDecl("syntax", "Quote")
	if fd == nil {
		return
	}
	param := info.Defs[fd.Type.Params.List[0].Names[0]]
	var rets []*ast.ReturnStmt
	inspectNoLit(fd.Body, func(n ast.Node) bool {
		if rs, ok := n.(*ast.ReturnStmt); ok && len(rs.Results) == 2 && isNilIdent(info, rs.Results[1]) {
			rets = append(rets, rs)
		}
		return true
	})
	isParam := func(e ast.Expr) bool {
		id, ok := ast.Unparen(e).(*ast.Ident)
		return ok && info.ObjectOf(id) == param
	}
	isConstStr := func(e ast.Expr, want string) bool {
		tv, ok := info.Types[e]
		return ok && tv.Value != nil && tv.Value.Kind() == constant.String && constant.StringVal(tv.Value) == want
	}
	var lastBuilder *ast.ReturnStmt
	seen := map[string]int{}
	for _, rs := range rets {
		e := ast.Unparen(rs.Results[0])
		shape := ""
		if tv, ok := info.Types[e]; ok && tv.Value != nil {
			shape = "a constant (the empty string's quoting)"
		}
		switch x := e.(type) {
		case *ast.Ident:
			if isParam(x) {
				shape = "the string itself"
			}
		case *ast.CallExpr:
			if sel, ok := x.Fun.(*ast.SelectorExpr); ok && sel.Sel.Name == "String" && len(x.Args) == 0 {
				shape = "a builder's String()"
				lastBuilder = rs
			}
		case *ast.BinaryExpr:
			// '…' + s + '…'
			if inner, ok := ast.Unparen(x.X).(*ast.BinaryExpr); ok && x.Op == token.ADD && inner.Op == token.ADD &&
				isConstStr(inner.X, "'") && isParam(inner.Y) && isConstStr(x.Y, "'") {
				shape = "single quotes around the string"
			}
		}
		key := "syntax.Quote#return " + shortExpr(e)
		seen[key]++
		if seen[key] > 1 {
			key += fmt.Sprintf("#%d", seen[key])
		}
		r.Check(shape != "", rule, key, rs.Pos(), shape,
			"Quote returns a word built in a way the rule does not know (not the string itself, a builder's contents, or single quotes around it): a shortcut that adds quotes without visiting every rune of the string leaves the characters that are special inside those quotes unescaped")
	}
	if lastBuilder == nil {
		r.Undecided(rule, "syntax.Quote#double-quote fallback return", fd.Pos(), "no return of a builder's String() found")
		return
	}
	// the last builder return is dominated by the loop whose switch lists '"'
	var loop ast.Stmt
	ast.Inspect(fd.Body, func(n ast.Node) bool {
		var body *ast.BlockStmt
		switch x := n.(type) {
		case *ast.RangeStmt:
			body = x.Body
		case *ast.ForStmt:
			body = x.Body
		default:
			return true
		}
		ast.Inspect(body, func(m ast.Node) bool {
			if cc, ok := m.(*ast.CaseClause); ok {
				for _, ce := range cc.List {
					if tv, ok := info.Types[ce]; ok && tv.Value != nil && tv.Value.Kind() == constant.Int {
						if v, _ := constant.Int64Val(tv.Value); v == '"' {
							if sw := enclosingSwitchWithTag(body, cc); sw {
								loop = n.(ast.Stmt)
							}
						}
					}
				}
			}
			return true
		})
		return true
	})
	if loop == nil {
		r.Undecided(rule, "syntax.Quote#double-quote escaping loop", fd.Pos(), "no loop with a switch listing '\"' found")
		return
	}
	g := NewFGraph(info, fd.Body, nil)
	rb, _ := g.BlockOf(lastBuilder)
	inLoop := map[*FBlock]bool{}
	for _, b := range g.Blocks {
		if b.Stmt == loop {
			inLoop[b] = true
		}
		for _, n := range b.Nodes {
			if loop.Pos() <= n.Pos() && n.End() <= loop.End() {
				inLoop[b] = true
			}
		}
	}
	reach := g.Reachable(g.Entry, func(e *FEdge) bool { return !inLoop[e.From] && !inLoop[e.To] })
	r.Check(rb != nil && !reach[rb], rule, "syntax.Quote#double-quote fallback goes through the escaping loop", lastBuilder.Pos(), "every path to the final return passes the loop that escapes the runes special inside double quotes",
		"the double-quoted result can be returned without going through the escaping loop")
}

// enclosingSwitchWithTag reports whether cc belongs to a switch with a tag expression inside body.
func enclosingSwitchWithTag(body *ast.BlockStmt, cc *ast.CaseClause) bool {
	found := false
	ast.Inspect(body, func(n ast.Node) bool {
		if sw, ok := n.(*ast.SwitchStmt); ok && sw.Tag != nil {
			for _, s := range sw.Body.List {
				if s == ast.Stmt(cc) {
					found = true
				}
			}
		}
		return true
	})
	return found
}
