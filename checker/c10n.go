package main

import (
	"fmt"
	"go/ast"
	"go/token"
	"go/types"
	"sort"
	"strings"

	"golang.org/x/tools/go/packages"
)

// R10n: the read buffer p.bs holds only what has been read so far; when the cursor p.bsp reaches its end the next byte
// may not exist yet (end of input, or simply the end of this 1 KiB read). Every single-byte index p.bs[E] is therefore
// reached only through the failing branch of a test `E >= len(p.bs)` (or the passing branch of `E < len(p.bs)`), or
// through `p.fill() != 0` (a refill that produced bytes leaves the cursor inside them), with no write to the cursor or
// the buffer and no Parser method call in between. A guard on E+k covers E. An unguarded index panics exactly when an
// input — a prefix cut at a line boundary, say — ends at that point: neither a parse nor an incomplete error.
func checkReadBufferIndexGuarded(p *Prog, r *Result, pkg *packages.Package, rule string) {
	info := pkg.TypesInfo
	parserT := lookupType(pkg, "Parser")
	fill := lookupFunc(pkg, "Parser.fill")
	if parserT == nil || fill == nil {
		r.Fatalf("anchors Parser / Parser.fill not found")
		return
	}
	var bsF, bspF *types.Var
	st := parserT.Underlying().(*types.Struct)
	for i := 0; i < st.NumFields(); i++ {
		switch st.Field(i).Name() {
		case "bs":
			bsF = st.Field(i)
		case "bsp":
			bspF = st.Field(i)
		}
	}
	if bsF == nil || bspF == nil {
		r.Fatalf("anchors Parser.bs / Parser.bsp not found")
		return
	}
	// canonical text of an index expression: conversions stripped; "p.bsp" or "p.bsp + k"
	var canon func(e ast.Expr) (string, bool)
	canon = func(e ast.Expr) (string, bool) {
		e = stripConv(info, e)
		switch x := e.(type) {
		case *ast.SelectorExpr:
			if selectorField(info, x) == bspF {
				return "bsp+0", true
			}
		case *ast.BinaryExpr:
			if x.Op == token.ADD {
				if s, ok := canon(x.X); ok && s == "bsp+0" {
					if tv, has := info.Types[x.Y]; has && tv.Value != nil {
						return "bsp+" + tv.Value.ExactString(), true
					}
				}
			}
		}
		return "", false
	}
	isLenBs := func(e ast.Expr) bool {
		c, ok := stripConv(info, e).(*ast.CallExpr)
		if !ok || len(c.Args) != 1 {
			return false
		}
		id, ok := ast.Unparen(c.Fun).(*ast.Ident)
		if !ok {
			return false
		}
		if b, ok := info.ObjectOf(id).(*types.Builtin); !ok || b.Name() != "len" {
			return false
		}
		return selectorField(info, c.Args[0]) == bsF
	}
	offsetOf := func(s string) int {
		n := 0
		fmt.Sscanf(strings.TrimPrefix(s, "bsp+"), "%d", &n)
		return n
	}
	type fact struct{ upTo int } // indices bsp+0 … bsp+upTo are inside the buffer; -1: nothing known
	n := 0
	for _, fd := range p.AllFuncDecls("syntax") {
		if fd.Body == nil || strings.HasSuffix(p.Position(fd.Pos()), "_test.go") {
			continue
		}
		var idxs []*ast.IndexExpr
		ast.Inspect(fd.Body, func(m ast.Node) bool {
			if ie, ok := m.(*ast.IndexExpr); ok && selectorField(info, ie.X) == bsF {
				idxs = append(idxs, ie)
			}
			return true
		})
		if len(idxs) == 0 {
			continue
		}
		g := NewFGraph(info, fd.Body, nil)
		kills := func(nd ast.Node) bool {
			k := false
			inspectNoLit(nd, func(m ast.Node) bool {
				switch x := m.(type) {
				case *ast.IncDecStmt:
					if fv := selectorField(info, x.X); fv == bspF || fv == bsF {
						k = true
					}
				case *ast.AssignStmt:
					for _, l := range x.Lhs {
						if fv := selectorField(info, l); fv == bspF || fv == bsF {
							k = true
						}
					}
				case *ast.CallExpr:
					if callee := calleeOf(info, x); callee != nil {
						if sig, ok := callee.Type().(*types.Signature); ok && sig.Recv() != nil && namedOf(sig.Recv().Type()) == parserT {
							k = true
						}
					}
				}
				return true
			})
			return k
		}
		res := runForward(g, flowSpec[fact]{
			Init:  fact{-1},
			Join:  func(a, b fact) fact { return fact{min(a.upTo, b.upTo)} },
			Equal: func(a, b fact) bool { return a == b },
			Node: func(f fact, nd ast.Node) fact {
				if kills(nd) {
					return fact{-1}
				}
				return f
			},
			Edge: func(f fact, e *FEdge) fact {
				if e.Cond == nil || e.Tag != nil || e.TypeCase {
					return f
				}
				be, ok := ast.Unparen(e.Cond).(*ast.BinaryExpr)
				if !ok {
					return f
				}
				// p.fill() == 0 failed / p.fill() != 0 passed: bytes were read and the cursor is at their start
				if c, isCall := ast.Unparen(be.X).(*ast.CallExpr); isCall {
					if callee := calleeOf(info, c); callee != nil && callee.Origin() == fill {
						if tv, has := info.Types[be.Y]; has && tv.Value != nil && tv.Value.ExactString() == "0" {
							if (be.Op == token.EQL && !e.Pol) || (be.Op == token.NEQ && e.Pol) || (be.Op == token.GTR && e.Pol) {
								return fact{max(f.upTo, 0)}
							}
						}
						return f
					}
				}
				x, y, op := be.X, be.Y, be.Op
				if isLenBs(x) { // len(p.bs) <= E is E >= len(p.bs), and so on
					x, y = y, x
					switch op {
					case token.LEQ:
						op = token.GEQ
					case token.GTR:
						op = token.LSS
					case token.LSS:
						op = token.GTR
					case token.GEQ:
						op = token.LEQ
					}
				}
				s, ok := canon(x)
				if !ok || !isLenBs(y) {
					return f
				}
				inside := (op == token.GEQ && !e.Pol) || (op == token.LSS && e.Pol)
				if inside {
					return fact{max(f.upTo, offsetOf(s))}
				}
				return f
			},
		})
		sort.Slice(idxs, func(i, j int) bool { return idxs[i].Pos() < idxs[j].Pos() })
		per := map[string]int{}
		for _, ie := range idxs {
			n++
			s, ok := canon(ie.Index)
			per[exprString(ie.Index)]++
			key := fmt.Sprintf("%s#p.bs[%s] is inside the buffer", funcKey("syntax", fd), exprString(ie.Index))
			if per[exprString(ie.Index)] > 1 {
				key = fmt.Sprintf("%s (%d)", key, per[exprString(ie.Index)])
			}
			if !ok {
				r.Undecided(rule, key, ie.Pos(), "the index is not the cursor plus a constant")
				continue
			}
			// the fact before the graph node that holds the index; an index inside a condition that is itself the
			// guard's right-hand conjunct gets the fact on entry to its own block, which the guard edge has set
			var f fact
			found := false
			if b := blockContaining(g, ie); b != nil {
				for i, nd := range b.Nodes {
					if nd.Pos() <= ie.Pos() && ie.End() <= nd.End() {
						f, found = res.At(b, i)
						break
					}
				}
			}
			if !found {
				r.Undecided(rule, key, ie.Pos(), "the index was not found in the function's flow graph")
				continue
			}
			r.Check(f.upTo >= offsetOf(s), rule, key, ie.Pos(), "every path to the index has passed a bounds test against len(p.bs) (or a refill that produced bytes) with no write to the cursor since",
				"the read buffer is indexed on a path that has not tested the cursor against len(p.bs): when the input (or the current read) ends exactly here this panics with index out of range instead of returning a parse or an incomplete error")
		}
	}
	r.Notef("%s: %d single-byte indexes into the read buffer", rule, n)
}
