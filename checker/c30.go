package main

import (
	"fmt"
	"go/ast"
	"go/token"
	"go/types"
	"sort"
	"strings"

	"golang.org/x/tools/go/packages"
)

func init() {
	register(&Property{
		ID:  "C30",
		Run: runC30,
		Decided: "Reset keeps exactly the configuration and nothing else: every Runner field that options or New store is carried over by Reset's `*r = Runner{…}` literal " +
			"(from the field itself if nothing but configuration code writes it, from its first-reset snapshot if builtins can overwrite it) or is consumed in the first-reset block (R30a); " +
			"no key of that literal carries a field the running program can write unless it is emptied afterwards (R30b); the snapshots are taken only in the first-reset block, are carried " +
			"over themselves, and didReset is set on every path (R30c). For incremental use: Run calls Reset only on a Runner that was never reset and refreshes the expansion options before " +
			"executing anything (R30d); every runtime write to the option table is followed by updateExpandOpts on every path to the function's exit, so the rest of a whole-file run sees what " +
			"a next Run call would see (R30e); storage that a snapshot aliases (the positional parameters) is never written in place (R30f); every successful overlayEnviron.Set leaves an entry in the overlay, which is what Run's additive update of Runner.Vars relies on (R30g). Run stores, around the node, only into per-Run bookkeeping or what Runner.stmt sets identically (R30h).",
		NotDecided:  "that the program-visible effect of each carried value is the same as on a new Runner (value-level); the incremental clause beyond option refresh (traps, `exit` inside functions).",
		Assumptions: []string{"Runner fields are written only through selector assignments, address-taking and composite literals (no reflection/unsafe in package interp: checked by C29)"},
		Controls:    c30Controls,
	})
}

func runC30(p *Prog, r *Result) {
	pkg := p.Pkg("interp")
	if pkg == nil {
		r.Fatalf("package interp not loaded")
		return
	}
	info := pkg.TypesInfo
	r.Rule("R30a", "every configuration field of Runner (stored by a RunnerOption closure or by New) survives Reset: carried by the literal from itself or its snapshot, or consumed in the first-reset block", 12)
	r.Rule("R30b", "every key of Reset's Runner literal reads only configuration, set-once or snapshot fields, or the field is emptied after the literal", 20)
	r.Rule("R30c", "snapshot (orig*) fields are assigned only in the first-reset block and carried over by the literal; didReset is set on every path out of Reset and nowhere else", 7)
	r.Rule("R30d", "Run calls Reset only under !didReset and calls fillExpandConfig (which always reaches updateExpandOpts) before executing the node", 2)
	r.Rule("R30f", "storage aliased by a first-reset snapshot (Params and origParams share one backing array) is never written in place: SSA ownership rule of C27 restricted to those fields", 0)
	r.Rule("R30g", "every successful return of overlayEnviron.Set is preceded on every path by a store into the overlay's values (value or unset tombstone): Run publishes Runner.Vars additively from Each", 2)
	r.Rule("R30h", "Run stores, around the node it executes, only into per-Run bookkeeping or what Runner.stmt sets identically for every statement: state a statement leaves behind is not reset between Run calls", 3)
	r.Rule("R30e", "every runtime write to the option table (store through a pointer into Runner.opts, indexed store, or applying a RunnerOption) reaches updateExpandOpts on every path to the function exit", 2)

	runnerT := lookupType(pkg, "Runner")
	optT := lookupType(pkg, "RunnerOption")
	resetFD := p.FuncDecl("interp", "Runner.Reset")
	runFD := p.FuncDecl("interp", "Runner.Run")
	if runnerT == nil || optT == nil || resetFD == nil || runFD == nil {
		r.Fatalf("anchors interp.Runner / RunnerOption / Reset / Run not found")
		return
	}
	sstruct := runnerT.Underlying().(*types.Struct)
	fieldByName := map[string]*types.Var{}
	for i := 0; i < sstruct.NumFields(); i++ {
		fieldByName[sstruct.Field(i).Name()] = sstruct.Field(i)
	}

	// ---- classify writes
	isOptLit := func(lit *ast.FuncLit) bool {
		if lit == nil {
			return false
		}
		sig, ok := info.TypeOf(lit).(*types.Signature)
		return ok && types.Identical(sig, optT.Underlying())
	}
	returnsOption := func(fd *ast.FuncDecl) bool {
		if fd.Recv != nil || fd.Type.Results == nil || len(fd.Type.Results.List) != 1 {
			return false
		}
		return namedOf(info.TypeOf(fd.Type.Results.List[0].Type)) == optT
	}
	firstReset := firstResetBlock(info, resetFD, fieldByName["didReset"])
	if firstReset == nil {
		r.Fatalf("Reset has no `if !r.didReset { … }` block")
		return
	}
	inFirstReset := func(pos token.Pos) bool { return firstReset.Body.Pos() <= pos && pos < firstReset.Body.End() }
	lit, litStmt := resetLiteral(info, resetFD, runnerT)
	if lit == nil {
		r.Fatalf("Reset has no `*r = Runner{…}` assignment")
		return
	}

	writes, _ := structFieldWrites(pkg, runnerT)
	type class struct{ config, firstReset, reset, runtime []fieldWrite }
	classes := map[*types.Var]*class{}
	for fv, ws := range writes {
		c := &class{}
		classes[fv] = c
		for _, w := range ws {
			switch {
			case w.fn.Name.Name == "New" && w.fn.Recv == nil:
				c.config = append(c.config, w)
			case returnsOption(w.fn) && isOptLit(w.lit):
				c.config = append(c.config, w)
			case w.fn == resetFD && inFirstReset(w.pos):
				c.firstReset = append(c.firstReset, w)
			case w.fn == resetFD:
				c.reset = append(c.reset, w)
			default:
				c.runtime = append(c.runtime, w)
			}
		}
	}
	get := func(fv *types.Var) *class {
		if c := classes[fv]; c != nil {
			return c
		}
		return &class{}
	}
	isConfig := func(fv *types.Var) bool { return len(get(fv).config) > 0 }
	// set-once: written only by configuration code and the first-reset block
	isSetOnce := func(fv *types.Var) bool {
		c := get(fv)
		return len(c.runtime) == 0 && len(c.reset) == 0 && (len(c.config) > 0 || len(c.firstReset) > 0)
	}

	// snapshot fields: r.origX = r.X in the first-reset block
	snapOf := map[*types.Var]*types.Var{}  // X -> origX
	snapSrc := map[*types.Var]*types.Var{} // origX -> X
	for _, st := range firstReset.Body.List {
		as, ok := st.(*ast.AssignStmt)
		if !ok || len(as.Lhs) != 1 || len(as.Rhs) != 1 || as.Tok != token.ASSIGN {
			continue
		}
		l, rr := selectorField(info, as.Lhs[0]), selectorField(info, as.Rhs[0])
		if l != nil && rr != nil && l != rr && fieldByName[l.Name()] == l && fieldByName[rr.Name()] == rr {
			snapOf[rr] = l
			snapSrc[l] = rr
		}
	}

	// literal keys
	litKeys := map[*types.Var]ast.Expr{}
	for _, el := range lit.Elts {
		kv, ok := el.(*ast.KeyValueExpr)
		if !ok {
			r.Undecided("R30b", "interp.(Runner).Reset#unkeyed literal element", el.Pos(), "the Runner literal in Reset has an unkeyed element")
			continue
		}
		if id, ok := kv.Key.(*ast.Ident); ok {
			if fv, ok := info.Uses[id].(*types.Var); ok {
				litKeys[fv] = kv.Value
			}
		}
	}
	fieldsIn := func(e ast.Node) []*types.Var {
		var out []*types.Var
		seen := map[*types.Var]bool{}
		ast.Inspect(e, func(n ast.Node) bool {
			if se, ok := n.(*ast.SelectorExpr); ok {
				if fv := selectorField(info, se); fv != nil && fieldByName[fv.Name()] == fv && !seen[fv] {
					seen[fv] = true
					out = append(out, fv)
				}
			}
			return true
		})
		return out
	}

	// ---- R30a
	exceptA := map[string]string{
		"sourceSetParams": "stored by the Params closure only under r.inSource, which is false until a program runs (Params doubles as the `set` builtin)",
		"dirStack":        "New points it at the empty bootstrap array; Reset truncates it and pushes Dir (checked by R30b: emptied)",
	}
	var cfgFields []*types.Var
	for i := 0; i < sstruct.NumFields(); i++ {
		if fv := sstruct.Field(i); isConfig(fv) {
			cfgFields = append(cfgFields, fv)
		}
	}
	for _, fv := range cfgFields {
		key := "interp.Runner." + fv.Name() + "#survives Reset"
		pos := get(fv).config[0].pos
		c := get(fv)
		runtimeWritten := len(c.runtime) > 0
		if why, ok := exceptA[fv.Name()]; ok {
			r.OK("R30a", key, pos, "exception: "+why)
			r.Except("interp.Runner."+fv.Name(), why)
			continue
		}
		if val, ok := litKeys[fv]; ok {
			srcs := fieldsIn(val)
			okSelf, okSnap, other := false, false, []string{}
			for _, s := range srcs {
				switch {
				case s == fv:
					okSelf = true
				case snapOf[fv] == s:
					okSnap = true
				default:
					other = append(other, s.Name())
				}
			}
			switch {
			case len(other) > 0:
				r.Bad("R30a", key, val.Pos(), fmt.Sprintf("Reset restores %s from %s, which is neither the field nor its first-reset snapshot", fv.Name(), strings.Join(other, ", ")))
			case runtimeWritten && okSelf:
				ws := c.runtime[0]
				r.Bad("R30a", key, val.Pos(), fmt.Sprintf("Reset carries %s over from the running state although %s can overwrite it (%s): after Reset the Runner does not have the value its options configured",
					fv.Name(), funcKey("interp", ws.fn), p.Position(ws.pos)))
			case runtimeWritten && okSnap:
				r.OK("R30a", key, val.Pos(), "restored from its first-reset snapshot "+snapOf[fv].Name())
			case okSelf || okSnap:
				r.OK("R30a", key, val.Pos(), "carried over (only configuration code writes it)")
			default:
				r.Bad("R30a", key, val.Pos(), fmt.Sprintf("Reset sets %s to a value that does not derive from the configured one", fv.Name()))
			}
			continue
		}
		// consumed in the first-reset block into a carried field?
		consumed := ""
		ast.Inspect(firstReset.Body, func(n ast.Node) bool {
			as, ok := n.(*ast.AssignStmt)
			if !ok {
				return true
			}
			for _, l := range as.Lhs {
				lf := selectorField(info, l)
				if lf == nil || lf == fv {
					continue
				}
				if _, carried := litKeys[lf]; !carried {
					continue
				}
				// the assignment is inside a statement that reads fv
				if usesFieldAround(info, firstReset.Body, as, fv) {
					consumed = lf.Name()
				}
			}
			return true
		})
		if consumed != "" {
			r.OK("R30a", key, pos, "consumed in the first-reset block into "+consumed+", which is carried over")
			continue
		}
		r.Bad("R30a", key, pos, fmt.Sprintf("configuration field %s is stored by an option (or New) but Reset's literal does not carry it: it is zero after Reset, unlike on a new Runner", fv.Name()))
	}

	// ---- R30b
	resetG := NewFGraph(info, resetFD.Body, nil)
	litBlk, litIdx := resetG.BlockOf(litStmt)
	var keys []*types.Var
	for fv := range litKeys {
		keys = append(keys, fv)
	}
	sort.Slice(keys, func(i, j int) bool { return keys[i].Name() < keys[j].Name() })
	for _, kf := range keys {
		val := litKeys[kf]
		for _, s := range fieldsIn(val) {
			key := fmt.Sprintf("interp.(Runner).Reset#literal key %s reads %s", kf.Name(), s.Name())
			c := get(s)
			switch {
			case snapSrc[s] != nil && len(c.runtime) == 0 && len(c.reset) == 0:
				r.OK("R30b", key, val.Pos(), "first-reset snapshot of "+snapSrc[s].Name())
			case isSetOnce(s):
				r.OK("R30b", key, val.Pos(), "set once (only configuration code or the first-reset block writes it)")
			case s == kf && emptiedAfter(info, resetG, litBlk, litIdx, val, kf):
				r.OK("R30b", key, val.Pos(), "storage reused, emptied after the literal on every path")
			case len(c.runtime) > 0:
				ws := c.runtime[0]
				r.Bad("R30b", key, val.Pos(), fmt.Sprintf("Reset carries %s over although the running program can change it (%s at %s): history leaks through Reset",
					s.Name(), funcKey("interp", ws.fn), p.Position(ws.pos)))
			default:
				r.Bad("R30b", key, val.Pos(), fmt.Sprintf("Reset carries %s over although Reset itself rewrites it outside the first-reset block: the value depends on earlier resets", s.Name()))
			}
		}
	}

	// ---- R30c
	var snaps []*types.Var
	for o := range snapSrc {
		snaps = append(snaps, o)
	}
	sort.Slice(snaps, func(i, j int) bool { return snaps[i].Name() < snaps[j].Name() })
	for _, o := range snaps {
		key := "interp.Runner." + o.Name() + "#snapshot"
		c := get(o)
		val, carried := litKeys[o]
		exact := false
		if carried {
			fs := fieldsIn(val)
			_, isSel := ast.Unparen(val).(*ast.SelectorExpr)
			exact = isSel && len(fs) == 1 && fs[0] == o
		}
		switch {
		case len(c.runtime) > 0 || len(c.reset) > 0 || len(c.config) > 0:
			r.Bad("R30c", key, firstReset.Pos(), fmt.Sprintf("snapshot field %s is written outside the first-reset block: later Resets restore something other than the configured value", o.Name()))
		case !exact:
			r.Bad("R30c", key, lit.Pos(), fmt.Sprintf("Reset's literal does not carry the snapshot %s over unchanged: the second Reset restores a zero %s", o.Name(), snapSrc[o].Name()))
		default:
			r.OK("R30c", key, val.Pos(), "assigned only in the first-reset block and carried over unchanged")
		}
	}
	if dr := fieldByName["didReset"]; dr != nil {
		c := get(dr)
		// the only way to make the first-reset block run again is a store of
		// something other than `true`; stores of true elsewhere (subshell marks
		// its copy as reset) are harmless.
		okPlace := len(c.firstReset) == 0
		for _, fd := range p.AllFuncDecls("interp") {
			ast.Inspect(fd.Body, func(n ast.Node) bool {
				as, ok := n.(*ast.AssignStmt)
				if !ok {
					return true
				}
				for i, l := range as.Lhs {
					if selectorField(info, l) != dr {
						continue
					}
					id, isID := ast.Expr(nil).(*ast.Ident)
					if i < len(as.Rhs) {
						id, isID = ast.Unparen(as.Rhs[i]).(*ast.Ident)
					}
					if !isID || id.Name != "true" {
						okPlace = false
					}
				}
				return true
			})
		}
		isSet := func(n ast.Node) bool {
			as, ok := n.(*ast.AssignStmt)
			if !ok || len(as.Lhs) != 1 || len(as.Rhs) != 1 || selectorField(info, as.Lhs[0]) != dr {
				return false
			}
			id, ok := ast.Unparen(as.Rhs[0]).(*ast.Ident)
			return ok && id.Name == "true"
		}
		okPath, _ := resetG.MustPass(litBlk, litIdx, resetG.Exit, isSet, nil)
		_, inLit := litKeys[dr]
		r.Check(okPlace && okPath && !inLit, "R30c", "interp.(Runner).Reset#didReset", resetFD.Pos(), "set to true on every path after the literal, written nowhere else",
			"didReset is not set on every path out of Reset (or is written elsewhere): the first-reset block, which snapshots the configuration, runs again on a Runner that already ran programs")
	}

	// ---- R30f: snapshots of slice/map fields alias the live field's storage
	{
		var aliased []string
		for src, o := range snapOf {
			switch src.Type().Underlying().(type) {
			case *types.Slice, *types.Map:
				aliased = append(aliased, "Runner."+src.Name())
				_ = o
			}
		}
		sort.Strings(aliased)
		sub := newResult(r.Prop, r.prog)
		checkOwnership(p, sub, "R30f", false)
		n := 0
		for _, o := range sub.Obls {
			for _, a := range aliased {
				if strings.Contains(o.Key, a) {
					if o.Status == stBad {
						o.Detail += " — and Reset restores this storage from its first-reset snapshot, which shares the backing array: the reset Runner does not get the configured value back"
					}
					r.Obls = append(r.Obls, o)
					n++
				}
			}
		}
		r.Fatal = append(r.Fatal, sub.Fatal...)
		r.Notef("R30f: snapshot-aliased reference fields: %s; %d write sites on them in interp/expand/internal (each must act on owned storage)", strings.Join(aliased, ", "), n)
	}

	// ---- R30g
	if fd := p.FuncDecl("interp", "overlayEnviron.Set"); fd != nil {
		g := NewFGraph(info, fd.Body, nil)
		isStore := func(n ast.Node) bool {
			as, ok := n.(*ast.AssignStmt)
			if !ok {
				return false
			}
			for _, l := range as.Lhs {
				if ix, ok := ast.Unparen(l).(*ast.IndexExpr); ok {
					if fv := selectorField(info, ix.X); fv != nil && fv.Name() == "values" {
						return true
					}
				}
			}
			return false
		}
		for _, b := range g.Blocks {
			for i, n := range b.Nodes {
				rs, ok := n.(*ast.ReturnStmt)
				if !ok || len(rs.Results) != 1 || !isNilIdent(info, rs.Results[0]) {
					continue
				}
				bad := reachesWithout(g, b, i, isStore)
				r.Check(!bad, "R30g", "interp.(overlayEnviron).Set#return nil", rs.Pos(), "a store into o.values precedes it on every path",
					"overlayEnviron.Set can report success without leaving an entry (value or unset tombstone) in the overlay: Run merges the overlay into Runner.Vars additively, so a variable set by one Run call and unset by a later one stays in Vars, unlike in a whole-file run")
			}
		}
	} else {
		r.Fatalf("anchor overlayEnviron.Set not found")
	}

	// ---- R30d
	runG := NewFGraph(info, runFD.Body, nil)
	resetFn := lookupFunc(pkg, "Runner.Reset")
	fillFn := lookupFunc(pkg, "Runner.fillExpandConfig")
	updFn := lookupFunc(pkg, "Runner.updateExpandOpts")
	if resetFn == nil || fillFn == nil || updFn == nil {
		r.Fatalf("anchors Reset / fillExpandConfig / updateExpandOpts not found")
		return
	}
	for _, fd := range []*ast.FuncDecl{runFD, p.FuncDecl("interp", "Runner.subshell")} {
		if fd == nil {
			continue
		}
		g := NewFGraph(info, fd.Body, nil)
		for _, s := range findCalls(g, func(c *ast.CallExpr) bool { return calleeOf(info, c) == resetFn }) {
			guarded := false
			dom := g.Dominators()
			for d := range dom[s.blk] {
				for _, e := range d.Succs {
					if e.Cond != nil && selectorField(info, e.Cond) == fieldByName["didReset"] && !e.Pol {
						// the false edge of r.didReset must be the only way into s.blk's region
						if e.To == s.blk || dom[s.blk][e.To] {
							guarded = true
						}
					}
				}
			}
			r.Check(guarded, "R30d", funcKey("interp", fd)+"#calls Reset", s.call.Pos(), "only under !r.didReset",
				fd.Name.Name+" calls Reset on a Runner that was already reset: state built up by earlier Run calls (variables, functions, options) is discarded between incremental runs")
		}
	}
	// refreshes options: fillExpandConfig dominates the execution calls, and fillExpandConfig must-pass updateExpandOpts
	refreshers := map[*types.Func]bool{updFn: true}
	if fd := p.FuncDecl("interp", "Runner.fillExpandConfig"); fd != nil {
		g := NewFGraph(info, fd.Body, nil)
		hit := func(n ast.Node) bool {
			for _, c := range nodeCalls(n) {
				if calleeOf(info, c) == updFn {
					return true
				}
			}
			return false
		}
		if len(g.Entry.Nodes) > 0 && hit(g.Entry.Nodes[0]) {
			refreshers[fillFn] = true
		} else if ok, _ := g.MustPass(g.Entry, -1, g.Exit, hit, nil); ok {
			refreshers[fillFn] = true
		}
	}
	{
		execFns := map[*types.Func]bool{}
		for _, n := range []string{"Runner.stmts", "Runner.stmt", "Runner.cmd"} {
			if f := lookupFunc(pkg, n); f != nil {
				execFns[f] = true
			}
		}
		isRefresh := func(n ast.Node) bool {
			for _, c := range nodeCalls(n) {
				if refreshers[calleeOf(info, c)] {
					return true
				}
			}
			return false
		}
		execs := findCalls(runG, func(c *ast.CallExpr) bool { return execFns[calleeOf(info, c)] })
		okAll := len(execs) > 0 && refreshers[fillFn]
		// every path from entry to an exec call passes a refresh: remove refresh nodes and test reachability
		for _, s := range execs {
			if reachesWithout(runG, s.blk, s.idx, isRefresh) {
				okAll = false
			}
		}
		r.Check(okAll, "R30d", "interp.(Runner).Run#refreshes expansion options first", runFD.Pos(), fmt.Sprintf("fillExpandConfig (always reaches updateExpandOpts) precedes all %d execution calls", len(execs)),
			"Run can execute the node without first refreshing the expansion configuration from the option table: options set through Params between Run calls are not honoured")
	}

	// ---- R30e
	optPtrFns := map[*types.Func]bool{}
	for _, fd := range p.AllFuncDecls("interp") {
		fo, _ := info.Defs[fd.Name].(*types.Func)
		if fo == nil {
			continue
		}
		ast.Inspect(fd.Body, func(n ast.Node) bool {
			rs, ok := n.(*ast.ReturnStmt)
			if !ok {
				return true
			}
			for _, res := range rs.Results {
				if ue, ok := ast.Unparen(res).(*ast.UnaryExpr); ok && ue.Op == token.AND {
					if ix, ok := ast.Unparen(ue.X).(*ast.IndexExpr); ok && selectorField(info, ix.X) == fieldByName["opts"] {
						optPtrFns[fo] = true
					}
				}
			}
			return true
		})
	}
	if len(optPtrFns) == 0 {
		r.Fatalf("no function returning a pointer into Runner.opts found (posixOptByName / bashOptByName)")
	}
	nE := 0
	for _, fd := range p.AllFuncDecls("interp") {
		if fd == resetFD || (fd.Name.Name == "New" && fd.Recv == nil) || returnsOption(fd) {
			continue // configuration time: Run refreshes before executing (R30d)
		}
		// locals holding option pointers
		optLocals := map[types.Object]bool{}
		ast.Inspect(fd.Body, func(n ast.Node) bool {
			as, ok := n.(*ast.AssignStmt)
			if !ok || len(as.Rhs) != 1 {
				return true
			}
			call, ok := ast.Unparen(as.Rhs[0]).(*ast.CallExpr)
			if !ok || !optPtrFns[calleeOf(info, call)] {
				return true
			}
			if id, ok := as.Lhs[0].(*ast.Ident); ok {
				if o := info.ObjectOf(id); o != nil {
					optLocals[o] = true
				}
			}
			return true
		})
		var g *FGraph
		graph := func() *FGraph {
			if g == nil {
				g = NewFGraph(info, fd.Body, nil)
			}
			return g
		}
		isRefresh := func(n ast.Node) bool {
			for _, c := range nodeCalls(n) {
				if refreshers[calleeOf(info, c)] {
					return true
				}
			}
			return false
		}
		check := func(n ast.Node, what string) {
			nE++
			gg := graph()
			blk, idx := gg.BlockOf(n)
			key := funcKey("interp", fd) + "#" + what
			if blk == nil {
				r.Undecided("R30e", key, n.Pos(), "statement not found in the flow graph")
				return
			}
			ok, _ := gg.MustPass(blk, idx, gg.Exit, isRefresh, nil)
			r.Check(ok, "R30e", key, n.Pos(), "updateExpandOpts follows on every path to the exit",
				"the option table is changed and some path returns without updateExpandOpts: the rest of this Run keeps expanding with the old options while a later Run sees the new ones")
		}
		inspectNoLit(fd.Body, func(n ast.Node) bool {
			switch x := n.(type) {
			case *ast.AssignStmt:
				for _, l := range x.Lhs {
					l = ast.Unparen(l)
					if st, ok := l.(*ast.StarExpr); ok {
						if id, ok := ast.Unparen(st.X).(*ast.Ident); ok && optLocals[info.ObjectOf(id)] {
							check(x, "stores through option pointer "+id.Name)
						}
					}
					if ix, ok := l.(*ast.IndexExpr); ok && selectorField(info, ix.X) == fieldByName["opts"] {
						check(x, "stores r.opts[…]")
					}
					if selectorField(info, l) == fieldByName["opts"] && fd.Name.Name != "subshell" {
						check(x, "stores r.opts")
					}
				}
			case *ast.CallExpr:
				if namedOf(info.TypeOf(x.Fun)) == optT {
					check(enclosingStmt(fd.Body, x), "applies RunnerOption "+exprString(x.Fun))
				}
			}
			return true
		})
	}
	_ = nE

	// ---- R30i: Run executes a statement the way a whole-file run does
	// stmts() runs each statement through Runner.stmt (errexit, the ERR trap, background handling, lastExit). The clause
	// of Run's switch for *syntax.Stmt must do the same on every path, and call nothing else that executes.
	r.Rule("R30i", "Run hands a *syntax.Stmt to Runner.stmt on every path, like stmts() does for each statement of a file", 1)
	{
		found := false
		ast.Inspect(runFD.Body, func(n ast.Node) bool {
			ts, ok := n.(*ast.TypeSwitchStmt)
			if !ok {
				return true
			}
			for _, s2 := range ts.Body.List {
				cc := s2.(*ast.CaseClause)
				isStmt := false
				for _, e := range cc.List {
					if pt, ok := info.TypeOf(e).(*types.Pointer); ok && typeName(pt.Elem()) == "Stmt" {
						isStmt = true
					}
				}
				if !isStmt {
					continue
				}
				found = true
				// every top-level statement of the clause is the call of stmt; no conditional around it, no other executor
				okAll, calls := true, 0
				for _, b := range cc.Body {
					for _, c := range nodeCallsDeep(b) {
						if fn := calleeOf(info, c); fn != nil && fn.Type().(*types.Signature).Recv() != nil && typeName(derefType(fn.Type().(*types.Signature).Recv().Type())) == "Runner" {
							switch fn.Name() {
							case "stmt":
								if es, isExpr := b.(*ast.ExprStmt); isExpr && es.X == ast.Expr(c) {
									calls++
								} else {
									okAll = false
								}
							case "cmd", "stmts", "stmtSync", "call", "builtin":
								okAll = false
							}
						}
					}
				}
				r.Check(okAll && calls == 1, "R30i", "interp.(Runner).Run#case *syntax.Stmt runs it through stmt", cc.Pos(), "the clause is one unconditional call of Runner.stmt",
					"Run does not hand every *syntax.Stmt to Runner.stmt: a statement run on its own skips what stmts() does for each statement of a file (errexit, the ERR trap, background handling), so running a file one statement at a time differs")
			}
			return true
		})
		if !found {
			r.Undecided("R30i", "interp.(Runner).Run#case *syntax.Stmt", runFD.Pos(), "Run has no clause for *syntax.Stmt")
		}
	}

	r.Rule("R30k", "a read deadline armed on the Runner's stdin on cancellation is cleared by the returned cleanup on every path on which the callback ran", 1)
	checkDeadlineCleared(p, r, "R30k")
	// ---- R30j: Reset does not leave jobs of the history running
	// The entries of bgProcs stand for goroutines that keep running statements of an earlier program on copies that
	// share the runner's writers. A Reset that forgets them without waiting (a receive from each entry's done channel)
	// lets their output appear in the output of the program run next.
	r.Rule("R30j", "Reset waits for (receives from the done channel of) every background job before it forgets the list", 1)
	if bgF := fieldByName["bgProcs"]; bgF != nil {
		drops, waits := false, false
		ast.Inspect(resetFD.Body, func(n ast.Node) bool {
			switch x := n.(type) {
			case *ast.AssignStmt:
				for _, l := range x.Lhs {
					if selectorField(info, l) == bgF {
						drops = true
					}
				}
			case *ast.CallExpr:
				if isBuiltinCall(info, x, "clear") && len(x.Args) == 1 && selectorField(info, x.Args[0]) == bgF {
					drops = true
				}
			case *ast.UnaryExpr:
				if x.Op == token.ARROW {
					if sel, ok := ast.Unparen(x.X).(*ast.SelectorExpr); ok && sel.Sel.Name == "done" {
						waits = true
					}
				}
			case *ast.CompositeLit:
				if namedOf(info.TypeOf(x)) == runnerT {
					hasKey := false
					for _, el := range x.Elts {
						if kv, ok := el.(*ast.KeyValueExpr); ok {
							if k, ok := kv.Key.(*ast.Ident); ok && k.Name == "bgProcs" {
								hasKey = true
							}
						}
					}
					if !hasKey {
						drops = true // the literal that replaces *r leaves the field out: the list is forgotten
					}
				}
			}
			return true
		})
		if drops {
			r.Check(waits, "R30j", "interp.(Runner).Reset#forgets bgProcs only after waiting for them", resetFD.Pos(), "receives from each job's done channel first",
				"Reset forgets the background jobs of the programs run so far without waiting for them: a job still running writes into the output of the program run after Reset, which a new Runner would not show")
		} else {
			r.OK("R30j", "interp.(Runner).Reset#forgets bgProcs only after waiting for them", resetFD.Pos(), "Reset does not drop the list")
		}
	} else {
		r.Undecided("R30j", "interp.Runner.bgProcs", token.NoPos, "the Runner has no bgProcs field: background jobs are tracked somewhere this rule does not know")
	}

	// ---- R30h: Run does not reset what a statement can leave behind
	// A whole-file run goes from one top-level statement to the next without passing through Run. A field that
	// statements write (break/continue counts, the function depth, traps, …) and that Run stores into around the
	// node is therefore either always equal to the stored value at a statement boundary (then the store is dead)
	// or the two ways of running differ. The only accepted form is the one where Runner.stmt makes the very same
	// assignment itself.
	stmtFD := p.FuncDecl("interp", "Runner.stmt")
	if stmtFD == nil {
		r.Fatalf("interp.Runner.stmt not found")
		return
	}
	stmtAssigns := map[string]bool{}
	inspectNoLit(stmtFD.Body, func(n ast.Node) bool {
		if as, ok := n.(*ast.AssignStmt); ok && len(as.Lhs) == 1 && len(as.Rhs) == 1 {
			stmtAssigns[exprString(as.Lhs[0])+" = "+exprString(as.Rhs[0])] = true
		}
		return true
	})
	var refG30 *refGraph
	seenH := map[string]int{}
	inspectNoLit(runFD.Body, func(n ast.Node) bool {
		as, ok := n.(*ast.AssignStmt)
		if !ok {
			return true
		}
		for i, l := range as.Lhs {
			fv := selectorField(info, l)
			if fv == nil || fieldByName[fv.Name()] != fv {
				continue
			}
			carried := ""
			for _, w := range get(fv).runtime {
				if w.fn != runFD && w.fn != resetFD && w.fn.Name.Name != "subshell" {
					carried = funcKey("interp", w.fn)
					break
				}
			}
			rhs := "…"
			if len(as.Rhs) == len(as.Lhs) {
				rhs = exprString(as.Rhs[i])
			}
			key := fmt.Sprintf("interp.(Runner).Run#stores %s = %s", fv.Name(), rhs)
			seenH[key]++
			if seenH[key] > 1 {
				key += fmt.Sprintf("#%d", seenH[key])
			}
			// a field given a value from the node only in the *syntax.File clause, and read by code that statements run,
			// makes a statement see something else when it is run on its own
			inFileClause := false
			ast.Inspect(runFD.Body, func(n ast.Node) bool {
				cc, ok := n.(*ast.CaseClause)
				if !ok || !(cc.Pos() <= as.Pos() && as.End() <= cc.End()) {
					return true
				}
				for _, e := range cc.List {
					if pt, ok := info.TypeOf(e).(*types.Pointer); ok && typeName(pt.Elem()) == "File" {
						inFileClause = true
					}
				}
				return true
			})
			readByStatements := ""
			if inFileClause {
				if stmtFn := lookupFunc(pkg, "Runner.stmt"); stmtFn != nil {
					if refG30 == nil {
						refG30 = buildRefGraph(p)
					}
					g := refG30
					reach := g.reachable(stmtFn)
					for fo, fd := range g.decl {
						if !reach[fo] || fd == runFD || fd.Body == nil || g.pkgOf[fo] != pkg {
							continue
						}
						ast.Inspect(fd.Body, func(n ast.Node) bool {
							if sel, ok := n.(*ast.SelectorExpr); ok && selectorField(info, sel) == fv && readByStatements == "" {
								readByStatements = funcKey("interp", fd)
							}
							return true
						})
					}
				}
			}
			switch {
			case inFileClause && readByStatements != "" && fd0(runFD, info, fv):
				r.Bad("R30h", key, as.Pos(), fmt.Sprintf("Run gives %s a value from the node only when the node is a whole file, and code that statements run reads it (%s): the same statement sees another value when it is run on its own", fv.Name(), readByStatements))
			case carried == "":
				r.OK("R30h", key, as.Pos(), "no code a statement runs writes this field: it is per-Run bookkeeping")
			case stmtAssigns[exprString(l)+" = "+rhs]:
				r.OK("R30h", key, as.Pos(), "Runner.stmt makes the same assignment for every statement of a whole-file run")
			default:
				r.Bad("R30h", key, as.Pos(), fmt.Sprintf("Run stores into %s, which statements also write (%s) and Runner.stmt does not set the same way: what a statement leaves in it reaches the next statement of a whole-file run but not the next Run call, so running a file one statement at a time differs", fv.Name(), carried))
			}
		}
		return true
	})
}

// firstResetBlock finds `if !r.didReset { … }` in Reset.
func firstResetBlock(info *types.Info, fd *ast.FuncDecl, didReset *types.Var) *ast.IfStmt {
	var out *ast.IfStmt
	for _, st := range fd.Body.List {
		is, ok := st.(*ast.IfStmt)
		if !ok {
			continue
		}
		ue, ok := ast.Unparen(is.Cond).(*ast.UnaryExpr)
		if ok && ue.Op == token.NOT && selectorField(info, ue.X) == didReset && didReset != nil {
			out = is
		}
	}
	return out
}

// resetLiteral finds `*r = Runner{…}` at the top level of Reset.
func resetLiteral(info *types.Info, fd *ast.FuncDecl, runnerT *types.Named) (*ast.CompositeLit, ast.Stmt) {
	for _, st := range fd.Body.List {
		as, ok := st.(*ast.AssignStmt)
		if !ok || len(as.Lhs) != 1 || len(as.Rhs) != 1 {
			continue
		}
		if _, ok := ast.Unparen(as.Lhs[0]).(*ast.StarExpr); !ok {
			continue
		}
		if cl, ok := ast.Unparen(as.Rhs[0]).(*ast.CompositeLit); ok && namedOf(info.TypeOf(cl)) == runnerT {
			return cl, st
		}
	}
	return nil, nil
}

// usesFieldAround reports whether the assignment as, or a loop / if statement
// of root enclosing it, reads field fv.
func usesFieldAround(info *types.Info, root *ast.BlockStmt, as *ast.AssignStmt, fv *types.Var) bool {
	var path []ast.Node
	found := false
	var walk func(n ast.Node) bool
	walk = func(n ast.Node) bool {
		if n == nil || found {
			return false
		}
		path = append(path, n)
		if n == as {
			found = true
			return false
		}
		ast.Inspect(n, func(c ast.Node) bool {
			if c == n || found {
				return !found
			}
			if c == nil {
				return false
			}
			walk(c)
			return false
		})
		if !found {
			path = path[:len(path)-1]
		}
		return false
	}
	walk(root)
	if !found {
		return false
	}
	mentions := func(n ast.Node) bool {
		hit := false
		ast.Inspect(n, func(c ast.Node) bool {
			if se, ok := c.(*ast.SelectorExpr); ok && selectorField(info, se) == fv {
				hit = true
			}
			return !hit
		})
		return hit
	}
	for _, n := range path[1:] {
		switch x := n.(type) {
		case *ast.RangeStmt:
			if mentions(x.X) {
				return true
			}
		case *ast.ForStmt:
			if x.Cond != nil && mentions(x.Cond) {
				return true
			}
		case *ast.IfStmt:
			if mentions(x.Cond) {
				return true
			}
		case *ast.AssignStmt:
			for _, rh := range x.Rhs {
				if mentions(rh) {
					return true
				}
			}
		}
	}
	return false
}

// emptiedAfter: the literal value is r.F[:0], or every path from the literal
// to the exit passes clear(r.F) / r.F = make(…) / r.F = r.F[:0].
func emptiedAfter(info *types.Info, g *FGraph, blk *FBlock, idx int, val ast.Expr, fv *types.Var) bool {
	isZeroSlice := func(e ast.Expr) bool {
		se, ok := ast.Unparen(e).(*ast.SliceExpr)
		if !ok || se.Low != nil || se.High == nil || selectorField(info, se.X) != fv {
			return false
		}
		tv, ok := info.Types[se.High]
		return ok && tv.Value != nil && tv.Value.String() == "0"
	}
	if isZeroSlice(val) {
		return true
	}
	if blk == nil {
		return false
	}
	hit := func(n ast.Node) bool {
		switch x := n.(type) {
		case *ast.ExprStmt:
			if c, ok := x.X.(*ast.CallExpr); ok && isBuiltinCall(info, c, "clear") && len(c.Args) == 1 && selectorField(info, c.Args[0]) == fv {
				// clear empties a map; on a slice it zeroes the elements and keeps the length
				if _, isMap := fv.Type().Underlying().(*types.Map); isMap {
					return true
				}
			}
		case *ast.AssignStmt:
			for i, l := range x.Lhs {
				if selectorField(info, l) != fv || i >= len(x.Rhs) {
					continue
				}
				if isZeroSlice(x.Rhs[i]) {
					return true
				}
				if c, ok := ast.Unparen(x.Rhs[i]).(*ast.CallExpr); ok && isBuiltinCall(info, c, "make") {
					return true
				}
			}
		}
		return false
	}
	ok, _ := g.MustPass(blk, idx, g.Exit, hit, nil)
	return ok
}

// reachesWithout reports whether (blk, idx) is reachable from the entry along
// a path on which no earlier node satisfies stop.
func reachesWithout(g *FGraph, blk *FBlock, idx int, stop func(ast.Node) bool) bool {
	seen := map[*FBlock]bool{}
	var visit func(b *FBlock) bool
	visit = func(b *FBlock) bool {
		if seen[b] {
			return false
		}
		seen[b] = true
		limit := len(b.Nodes)
		if b == blk {
			limit = idx
		}
		for _, n := range b.Nodes[:limit] {
			if stop(n) {
				return false
			}
		}
		if b == blk {
			return true
		}
		for _, e := range b.Succs {
			if visit(e.To) {
				return true
			}
		}
		return false
	}
	return visit(g.Entry)
}

// enclosingStmt returns the innermost statement of body containing e.
func enclosingStmt(body *ast.BlockStmt, e ast.Node) ast.Node {
	var best ast.Node = e
	var bestSize token.Pos = 1 << 40
	ast.Inspect(body, func(n ast.Node) bool {
		st, ok := n.(ast.Stmt)
		if !ok {
			return true
		}
		switch st.(type) {
		case *ast.BlockStmt, *ast.IfStmt, *ast.ForStmt, *ast.RangeStmt, *ast.SwitchStmt, *ast.TypeSwitchStmt, *ast.CaseClause, *ast.SelectStmt, *ast.CommClause, *ast.LabeledStmt:
			return true
		}
		if st.Pos() <= e.Pos() && e.End() <= st.End() {
			if sz := st.End() - st.Pos(); sz < bestSize {
				best, bestSize = st, sz
			}
		}
		return true
	})
	return best
}

var c30Controls = []Control{
	{Name: "read-deadline-left-expired", Rule: "R30k", WantKey: "unblockStdinOnCancel#r.stdin.SetReadDeadline armed", File: "interp/builtin.go",
		Mutate: ctlReplaceAnywhere("\t\t\t<-stopc\n\t\t\tr.stdin.SetReadDeadline(time.Time{})\n", "\t\t\t<-stopc\n")},
	{Name: "run-shortcuts-plain-statements", Rule: "R30i", WantKey: "case *syntax.Stmt runs it through stmt", File: "interp/api.go",
		Mutate: ctlReplaceAnywhere("\tcase *syntax.Stmt:\n\t\tr.stmt(ctx, node)\n", "\tcase *syntax.Stmt:\n\t\tif len(node.Redirs) == 0 && !node.Negated && !node.Background {\n\t\t\tr.cmd(ctx, node.Cmd)\n\t\t} else {\n\t\t\tr.stmt(ctx, node)\n\t\t}\n")},
	{Name: "bgprocs-cleared-not-truncated", Rule: "R30b", WantKey: "literal key bgProcs", File: "interp/api.go",
		Mutate: ctlChain(ctlReplaceAnywhere("\t\tVars: r.Vars,\n", "\t\tVars: r.Vars,\n\t\tbgProcs: r.bgProcs,\n"), ctlReplaceAnywhere("\tclear(r.bgProcs)\n\tr.bgProcs = r.bgProcs[:0]\n", "\tclear(r.bgProcs)\n"))},
	{Name: "run-zeroes-break-count", Rule: "R30h", WantKey: "Run#stores breakEnclosing", File: "interp/api.go",
		Mutate: ctlReplaceAnywhere("\tr.filename = \"\"\n\tswitch node := node.(type) {", "\tr.filename = \"\"\n\tr.breakEnclosing = 0\n\tswitch node := node.(type) {")},
	{Name: "unset-without-tombstone", Rule: "R30g", WantKey: "overlayEnviron).Set#return nil", File: "interp/vars.go",
		Mutate: ctlReplace("overlayEnviron.Set", "delete(o.values, normalized)", "delete(o.values, normalized)\n\t\tif o.parent == nil {\n\t\t\treturn nil\n\t\t}", 0)},
	{Name: "shift-compacts-params-in-place", Rule: "R30f", WantKey: "Runner.Params", File: "interp/builtin.go",
		Mutate: ctlReplace("Runner.builtin", "r.Params = r.Params[n:]", "r.Params = slices.Delete(r.Params, 0, n)", 0)},
	{Name: "handler-dropped-by-reset", Rule: "R30a", WantKey: "Runner.accessHandler#survives Reset", File: "interp/api.go",
		Mutate: ctlReplaceAnywhere("\t\taccessHandler:  r.accessHandler,\n\n", "\n")},
	{Name: "dir-from-running-state", Rule: "R30a", WantKey: "Runner.Dir#survives Reset", File: "interp/api.go",
		Mutate: ctlReplaceAnywhere("\t\tDir:    r.origDir,", "\t\tDir:    r.Dir,")},
	{Name: "functions-leak-through-reset", Rule: "R30b", WantKey: "literal key Funcs reads Funcs", File: "interp/api.go",
		Mutate: ctlReplaceAnywhere("\t\tusedNew:  r.usedNew,\n", "\t\tusedNew:  r.usedNew,\n\t\tFuncs: r.Funcs,\n")},
	{Name: "vars-not-emptied", Rule: "R30b", WantKey: "literal key Vars reads Vars", File: "interp/api.go",
		Mutate: ctlReplace("Runner.Reset", "clear(r.Vars)", "_ = 0", 0)},
	{Name: "snapshot-not-carried", Rule: "R30c", WantKey: "Runner.origOpts#snapshot", File: "interp/api.go",
		Mutate: ctlReplaceAnywhere("\t\torigOpts:   r.origOpts,\n", "")},
	{Name: "run-always-resets", Rule: "R30d", WantKey: "Run#calls Reset", File: "interp/api.go",
		Mutate: ctlReplace("Runner.Run", "if !r.didReset {\n\t\tr.Reset()\n\t}", "r.Reset()", 0)},
	{Name: "shopt-returns-before-refresh", Rule: "R30e", WantKey: "builtin#stores through option pointer", File: "interp/builtin.go",
		Mutate: ctlReplaceAnywhere("\t\t\t\t*opt = mode == \"-s\"\n\t\t\t\t// Apply it right away, as a later argument may be invalid.\n\t\t\t\tr.updateExpandOpts()\n", "\t\t\t\t*opt = mode == \"-s\"\n")},
}

var _ *packages.Package


// fd0 is a placeholder for further conditions on the whole-file-only store (none today).
func fd0(_ *ast.FuncDecl, _ *types.Info, _ *types.Var) bool { return true }
