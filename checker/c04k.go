package main

import (
	"fmt"
	"go/ast"
	"go/token"
	"go/types"
	"strings"
)

// R04k: the flags of a statement — Negated, Background, Coprocess, Disown — and its redirections say how the command
// is run, not only what its status is: a negated command is exempt from `set -e` and from the ERR trap whatever it
// returns, so `! [[ -n $a ]]` and `[[ -z $a ]]` differ. No rewrite can clear or set one of them and keep the program's
// behaviour; the simplifier therefore stores none of them (zero stores on the pinned tree; armed by a control).
func checkStatementFlagsUntouched(p *Prog, r *Result, si *syntaxInfo, rule string) int {
	info := si.pkg.TypesInfo
	stmtT := lookupType(si.pkg, "Stmt")
	if stmtT == nil {
		r.Undecided(rule, "syntax#Stmt", token.NoPos, "type Stmt not found")
		return 0
	}
	n := 0
	for _, fd := range p.AllFuncDecls("syntax") {
		if fd.Body == nil || !strings.HasSuffix(p.Fset.Position(fd.Pos()).Filename, "/simplify.go") {
			continue
		}
		seen := map[string]int{}
		ast.Inspect(fd.Body, func(m ast.Node) bool {
			var lhs []ast.Expr
			switch x := m.(type) {
			case *ast.AssignStmt:
				lhs = x.Lhs
			case *ast.IncDecStmt:
				lhs = []ast.Expr{x.X}
			}
			for _, l := range lhs {
				se, ok := ast.Unparen(l).(*ast.SelectorExpr)
				if !ok {
					continue
				}
				fv := selectorField(info, se)
				if fv == nil || namedOf(derefType(info.TypeOf(se.X))) != stmtT {
					continue
				}
				_, isBool := fv.Type().Underlying().(*types.Basic)
				if !(isBool && fv.Type().Underlying().(*types.Basic).Kind() == types.Bool) && fv.Name() != "Redirs" {
					continue
				}
				n++
				key := fmt.Sprintf("%s#stores Stmt.%s", funcKey("syntax", fd), fv.Name())
				seen[key]++
				if seen[key] > 1 {
					key += fmt.Sprintf("#%d", seen[key])
				}
				r.Bad(rule, key, m.Pos(), fmt.Sprintf("the simplifier stores Stmt.%s: that field says how the command is run (a negated command is exempt from errexit and the ERR trap, a background one is not waited for, redirections apply to it), so no value other than the one the parser read leaves the program's behaviour alone", fv.Name()))
			}
			return true
		})
	}
	return n
}
