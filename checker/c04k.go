package main

import (
	"fmt"
	"go/ast"
	"go/token"
	"go/types"
	"strings"
)

// R04k: the flags of a statement — Negated, Background, Coprocess, Disown — and its redirections say how the command
// is run, not only what its status is: a negated command is exempt from `set -e` and from the ERR trap whatever it
// returns, so `! [[ -n $a ]]` and `[[ -z $a ]]` differ. No rewrite can clear or set one of them and keep the program's
// behaviour; the simplifier therefore stores none of them (zero stores on the pinned tree; armed by a control).
func checkStatementFlagsUntouched(p *Prog, r *Result, si *syntaxInfo, rule string) int {
	info := si.pkg.TypesInfo
	stmtT := lookupType(si.pkg, "Stmt")
	if stmtT == nil {
		r.Undecided(rule, "syntax#Stmt", token.NoPos, "type Stmt not found")
		return 0
	}
	n := 0
	for _, fd := range p.AllFuncDecls("syntax") {
		if fd.Body == nil || !strings.HasSuffix(p.Fset.Position(fd.Pos()).Filename, "/simplify.go") {
			continue
		}
		seen := map[string]int{}
		ast.Inspect(fd.Body, func(m ast.Node) bool {
			var lhs []ast.Expr
			switch x := m.(type) {
			case *ast.AssignStmt:
				lhs = x.Lhs
			case *ast.IncDecStmt:
				lhs = []ast.Expr{x.X}
			}
			for _, l := range lhs {
				se, ok := ast.Unparen(l).(*ast.SelectorExpr)
				if !ok {
					continue
				}
				fv := selectorField(info, se)
				if fv == nil || namedOf(derefType(info.TypeOf(se.X))) != stmtT {
					continue
				}
				_, isBool := fv.Type().Underlying().(*types.Basic)
				if !(isBool && fv.Type().Underlying().(*types.Basic).Kind() == types.Bool) && fv.Name() != "Redirs" {
					continue
				}
				n++
				key := fmt.Sprintf("%s#stores Stmt.%s", funcKey("syntax", fd), fv.Name())
				seen[key]++
				if seen[key] > 1 {
					key += fmt.Sprintf("#%d", seen[key])
				}
				r.Bad(rule, key, m.Pos(), fmt.Sprintf("the simplifier stores Stmt.%s: that field says how the command is run (a negated command is exempt from errexit and the ERR trap, a background one is not waited for, redirections apply to it), so no value other than the one the parser read leaves the program's behaviour alone", fv.Name()))
			}
			return true
		})
	}
	return n
}

// R04l: parentheses inside `[[ ]]` group `&&` and `||`; they are redundant around the whole expression and around a
// single test, not around a chain that is the operand of `!` or of another operator: `[[ ! (a && b) ]]` is not
// `[[ ! a && b ]]`. A simplifier function that takes the inside of a *ParenTest is therefore either applied to the root
// of a test clause only (every call passes TestClause.X), or looks at the operator of what it unwraps (its body names
// both AndTest and OrTest).
func checkTestParensUnwrappedAtRoot(p *Prog, r *Result, si *syntaxInfo, rule string) int {
	info := si.pkg.TypesInfo
	n := 0
	for _, fd := range p.AllFuncDecls("syntax") {
		if fd.Body == nil || !strings.HasSuffix(p.Fset.Position(fd.Pos()).Filename, "/simplify.go") {
			continue
		}
		// does the function take the inside of a *ParenTest?
		unwraps := token.NoPos
		parenVars := map[types.Object]bool{}
		ast.Inspect(fd.Body, func(m ast.Node) bool {
			switch x := m.(type) {
			case *ast.AssignStmt:
				for i, rhs := range x.Rhs {
					if ta, ok := ast.Unparen(rhs).(*ast.TypeAssertExpr); ok && ta.Type != nil && typeName(derefType(info.TypeOf(ta.Type))) == "ParenTest" && i < len(x.Lhs) {
						if id, ok := x.Lhs[i].(*ast.Ident); ok {
							parenVars[info.ObjectOf(id)] = true
						}
					}
				}
			case *ast.CaseClause:
				for _, e := range x.List {
					if typeName(derefType(info.TypeOf(e))) == "ParenTest" {
						if o := info.Implicits[x]; o != nil {
							parenVars[o] = true
						}
					}
				}
			}
			return true
		})
		if len(parenVars) == 0 {
			continue
		}
		isInside := func(e ast.Expr) bool {
			se, ok := ast.Unparen(e).(*ast.SelectorExpr)
			if !ok || se.Sel.Name != "X" {
				return false
			}
			id, ok := ast.Unparen(se.X).(*ast.Ident)
			return ok && parenVars[info.ObjectOf(id)]
		}
		// taken out: returned, stored somewhere else, or put into a new node (handing it to another function or
		// storing back into the same field is not)
		ast.Inspect(fd.Body, func(m ast.Node) bool {
			switch x := m.(type) {
			case *ast.ReturnStmt:
				for _, e := range x.Results {
					if isInside(e) && unwraps == token.NoPos {
						unwraps = e.Pos()
					}
				}
			case *ast.AssignStmt:
				for i, e := range x.Rhs {
					if isInside(e) && i < len(x.Lhs) && !isInside(x.Lhs[i]) && unwraps == token.NoPos {
						unwraps = e.Pos()
					}
				}
			case *ast.KeyValueExpr:
				if isInside(x.Value) && unwraps == token.NoPos {
					unwraps = x.Value.Pos()
				}
			}
			return true
		})
		if unwraps == token.NoPos {
			continue
		}
		n++
		key := funcKey("syntax", fd) + "#test parentheses are removed at the root, or with a look at the operator inside"
		self, _ := info.Defs[fd.Name].(*types.Func)
		// every call passes TestClause.X
		calls, rootOnly := 0, true
		for _, cfd := range p.AllFuncDecls("syntax") {
			if cfd.Body == nil {
				continue
			}
			ast.Inspect(cfd.Body, func(q ast.Node) bool {
				c, ok := q.(*ast.CallExpr)
				if !ok || calleeOf(info, c) != self || len(c.Args) == 0 {
					return true
				}
				if cfd == fd {
					return true // recursion on what it already holds
				}
				calls++
				arg, ok := ast.Unparen(c.Args[0]).(*ast.SelectorExpr)
				if !ok || arg.Sel.Name != "X" {
					rootOnly = false
				} else if tn := typeName(derefType(info.TypeOf(arg.X))); tn != "TestClause" && tn != "ParenTest" {
					// the whole of a [[ ]] clause, or the whole of another pair of parentheses
					rootOnly = false
				}
				return true
			})
		}
		looksAtOp := false
		and, or := false, false
		ast.Inspect(fd.Body, func(q ast.Node) bool {
			if id, ok := q.(*ast.Ident); ok {
				if c, ok := info.ObjectOf(id).(*types.Const); ok {
					switch c.Name() {
					case "AndTest":
						and = true
					case "OrTest":
						or = true
					}
				}
			}
			return true
		})
		looksAtOp = and && or
		switch {
		case calls > 0 && rootOnly:
			r.OK(rule, key, unwraps, fmt.Sprintf("all %d calls pass the X of a TestClause or of a ParenTest: the parentheses are around a whole expression", calls))
		case looksAtOp:
			r.OK(rule, key, unwraps, "the function names AndTest and OrTest: it looks at the operator of what it unwraps")
		default:
			r.Bad(rule, key, unwraps, "the function takes the inside of a parenthesised test where that test is an operand (of `!`, or of another operator) without looking at whether it is an `&&`/`||` chain: `[[ ! (a && b) ]]` becomes `[[ ! a && b ]]`, which bash groups as `(! a) && b`")
		}
	}
	return n
}
