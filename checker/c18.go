package main

import (
	"fmt"
	"go/ast"
	"go/constant"
	"go/token"
	"go/types"
	"sort"
	"strings"
)

func init() {
	register(&Property{
		ID:  "C18",
		Run: runC18,
		Decided: "QuoteMeta, HasMeta and Regexp agree on what a metacharacter is: QuoteMeta's scan and its escaping loop use the same set; every byte that makes HasMeta answer true, " +
			"and every rune with a special arm in regexpNext, is escaped by QuoteMeta; for every mode under which regexpNext recognises further operators, QuoteMeta neutralises them too (R18).",
		NotDecided:  "that an escaped pattern matches exactly the original string (a statement about generated regular expressions); bracket-expression and class syntax.",
		Assumptions: []string{"a rune that regexpNext sends to its default arm is emitted literally (regexp.QuoteMeta) — read, not checked"},
		Controls:    c18Controls,
	})
}

// runeCases returns the rune constants of a value switch's case lists,
// optionally filtered by a predicate on the clause.
func runeCases(info *types.Info, sw *ast.SwitchStmt, keep func(*ast.CaseClause) bool) map[rune]bool {
	out := map[rune]bool{}
	for _, s := range sw.Body.List {
		cc := s.(*ast.CaseClause)
		if cc.List == nil || (keep != nil && !keep(cc)) {
			continue
		}
		for _, e := range cc.List {
			if tv, ok := info.Types[e]; ok && tv.Value != nil && tv.Value.Kind() == constant.Int {
				v, _ := constant.Int64Val(tv.Value)
				out[rune(v)] = true
			}
		}
	}
	return out
}

func runeSetString(m map[rune]bool) string {
	var rs []rune
	for r := range m {
		rs = append(rs, r)
	}
	sort.Slice(rs, func(i, j int) bool { return rs[i] < rs[j] })
	var sb strings.Builder
	sb.WriteByte('{')
	for i, r := range rs {
		if i > 0 {
			sb.WriteByte(' ')
		}
		sb.WriteString(fmt.Sprintf("%q", r))
	}
	sb.WriteByte('}')
	return sb.String()
}

// valueSwitches returns the value switches of a function body in source
// order, with their tag rendered.
func valueSwitches(body ast.Node) []*ast.SwitchStmt {
	var out []*ast.SwitchStmt
	ast.Inspect(body, func(n ast.Node) bool {
		if sw, ok := n.(*ast.SwitchStmt); ok {
			out = append(out, sw)
		}
		return true
	})
	return out
}

func subset(a, b map[rune]bool) (bool, []rune) {
	var missing []rune
	for r := range a {
		if !b[r] {
			missing = append(missing, r)
		}
	}
	sort.Slice(missing, func(i, j int) bool { return missing[i] < missing[j] })
	return len(missing) == 0, missing
}

func runC18(p *Prog, r *Result) {
	pkg := p.Pkg("pattern")
	if pkg == nil {
		r.Fatalf("package pattern not loaded")
		return
	}
	info := pkg.TypesInfo
	r.Rule("R18", "metacharacter tables of QuoteMeta, HasMeta and regexpNext agree (set extraction from switch case lists)", 5)

	r.Rule("R18c", "no byte of the pattern is promoted to a rune without a test that it is below utf8.RuneSelf: an escaped multi-byte character matches itself (0 instances on the pinned tree; armed by C17's control; the check is R17h)", 0)
	checkByteWidenedToRune(p, r, "R18c")
	r.Rule("R18d", "a pattern found to have no metacharacters is used as text only with its escapes removed: that is the one string it matches", 1)
	checkLiteralPatternsUnescaped(p, r, "R18d")
	r.Rule("R18e", "in the expansion of a command word, the character after a backslash in an unquoted literal becomes a quoted part of the field: an escaped metacharacter is not a pattern", 1)
	checkEscapedLiteralsQuoted(p, r, "R18e")
	r.Rule("R18b", "Regexp's verbatim short-cut is taken only for patterns without any regexp metacharacter", 1)
	checkRegexpShortcut(p, r, "R18b")

	qm := p.FuncDecl("pattern", "QuoteMeta")
	hm := p.FuncDecl("pattern", "HasMeta")
	rn := p.FuncDecl("pattern", "regexpNext")
	if qm == nil || hm == nil || rn == nil {
		r.Fatalf("anchors pattern.QuoteMeta / HasMeta / regexpNext not found")
		return
	}
	// QuoteMeta: first switch = scan, second = escaping loop
	qsw := valueSwitches(qm.Body)
	if len(qsw) != 2 {
		r.Undecided("R18", "pattern.QuoteMeta#shape", qm.Pos(), fmt.Sprintf("expected two switches (scan and escape), found %d", len(qsw)))
		return
	}
	q1 := runeCases(info, qsw[0], nil)
	q2 := runeCases(info, qsw[1], func(cc *ast.CaseClause) bool {
		// the clause must write the escape byte
		found := false
		ast.Inspect(cc, func(n ast.Node) bool {
			if call, ok := n.(*ast.CallExpr); ok && len(call.Args) == 1 {
				if tv := info.Types[call.Args[0]]; tv.Value != nil && tv.Value.Kind() == constant.Int {
					if v, _ := constant.Int64Val(tv.Value); v == '\\' {
						found = true
					}
				}
			}
			return true
		})
		return found
	})
	ok1, m1 := subset(q1, q2)
	ok2, m2 := subset(q2, q1)
	r.Check(ok1 && ok2, "R18", "pattern.QuoteMeta#scan set = escape set", qm.Pos(), "Q1 = Q2 = "+runeSetString(q2),
		fmt.Sprintf("the need-escaping scan and the escaping loop disagree (only in scan: %q, only in loop: %q): some strings are returned unescaped or escaped inconsistently", string(m1), string(m2)))

	// HasMeta: bytes whose clause returns true unconditionally, or sets a
	// flag that another clause's `return true` is conditioned on.
	hsw := valueSwitches(hm.Body)
	if len(hsw) != 1 {
		r.Undecided("R18", "pattern.HasMeta#shape", hm.Pos(), fmt.Sprintf("expected one switch, found %d", len(hsw)))
		return
	}
	flagVars := map[types.Object]bool{}
	for _, s := range hsw[0].Body.List {
		cc := s.(*ast.CaseClause)
		for _, st := range cc.Body {
			if ifs, ok := st.(*ast.IfStmt); ok {
				if id, ok := ast.Unparen(ifs.Cond).(*ast.Ident); ok && bodyReturnsTrue(info, ifs.Body.List) {
					flagVars[info.Uses[id]] = true
				}
			}
		}
	}
	h := runeCases(info, hsw[0], func(cc *ast.CaseClause) bool {
		if bodyReturnsTrue(info, cc.Body) {
			return true
		}
		for _, st := range cc.Body {
			if as, ok := st.(*ast.AssignStmt); ok && len(as.Lhs) == 1 {
				if id, ok := ast.Unparen(as.Lhs[0]).(*ast.Ident); ok && flagVars[info.Uses[id]] {
					return true
				}
			}
		}
		return false
	})
	okH, mH := subset(h, q2)
	r.Check(okH, "R18", "pattern.HasMeta#meta bytes ⊆ QuoteMeta escape set", hm.Pos(), "H = "+runeSetString(h)+" ⊆ Q2",
		fmt.Sprintf("HasMeta treats %q as a metacharacter but QuoteMeta does not escape it: QuoteMeta(s) still has metacharacters", string(mH)))

	// regexpNext: main switch on the current rune = the last top-level switch
	// of the function body whose tag is the rune variable; extended block =
	// the switch nested under the mode&ExtendedOperators test.
	var mainSw, extSw *ast.SwitchStmt
	var extCond ast.Expr
	for _, st := range rn.Body.List {
		switch x := st.(type) {
		case *ast.SwitchStmt:
			mainSw = x
		case *ast.IfStmt:
			if modeBit(info, x.Cond) != "" {
				for _, inner := range x.Body.List {
					if sw, ok := inner.(*ast.SwitchStmt); ok {
						extSw, extCond = sw, x.Cond
					}
				}
			}
		}
	}
	if mainSw == nil {
		r.Undecided("R18", "pattern.regexpNext#shape", rn.Pos(), "main rune switch not found")
		return
	}
	r0 := runeCases(info, mainSw, nil)
	delete(r0, 0) // NUL is the end marker; shell strings cannot contain it
	okR, mR := subset(r0, q2)
	r.Check(okR, "R18", "pattern.regexpNext#special runes ⊆ QuoteMeta escape set", mainSw.Pos(), "R0∖{NUL} = "+runeSetString(r0)+" ⊆ Q2",
		fmt.Sprintf("regexpNext gives %q a special meaning but QuoteMeta does not escape it: QuoteMeta(s) matches something other than s", string(mR)))

	// every if on a mode bit that wraps a rune switch defines an extra special set
	nExt := 0
	if extSw != nil {
		nExt++
		rx := runeCases(info, extSw, nil)
		// which following rune activates the operators? `sl.peekNext() != '('`
		activators := map[rune]bool{}
		ast.Inspect(extSw, func(n ast.Node) bool {
			be, ok := n.(*ast.BinaryExpr)
			if !ok || (be.Op != token.NEQ && be.Op != token.EQL) {
				return true
			}
			if tv := info.Types[be.Y]; tv.Value != nil && tv.Value.Kind() == constant.Int {
				if call, ok := ast.Unparen(be.X).(*ast.CallExpr); ok {
					if se, ok := call.Fun.(*ast.SelectorExpr); ok && se.Sel.Name == "peekNext" {
						v, _ := constant.Int64Val(tv.Value)
						activators[rune(v)] = true
					}
				}
			}
			return true
		})
		// neutralised if every operator rune is escaped, or every activator is
		allOps, missOps := subset(rx, q2)
		allAct := len(activators) > 0
		for a := range activators {
			if !q2[a] {
				allAct = false
			}
		}
		r.Check(allOps || allAct, "R18", "pattern.regexpNext#mode "+modeBit(info, extCond)+" operators neutralised by QuoteMeta", extSw.Pos(),
			"operator runes "+runeSetString(rx)+" or their activator "+runeSetString(activators)+" are escaped",
			fmt.Sprintf("under %s regexpNext treats %s followed by %s as an operator, but QuoteMeta escapes neither %q nor the activator: QuoteMeta(\"@(a)\") is unchanged and still matches as an extended pattern",
				modeBit(info, extCond), runeSetString(rx), runeSetString(activators), string(missOps)))
	}
	if extSw != nil {
		rx := runeCases(info, extSw, nil)
		// HasMeta must answer true for patterns using these operators, or the
		// "HasMeta false => at most one string" clause fails under that mode.
		covered := true
		var miss []rune
		for op := range rx {
			if !h[op] {
				covered = false
				miss = append(miss, op)
			}
		}
		sort.Slice(miss, func(i, j int) bool { return miss[i] < miss[j] })
		r.Check(covered || h['('], "R18", "pattern.HasMeta#mode "+modeBit(info, extCond)+" operators reported as meta", hm.Pos(),
			"HasMeta answers true on every operator rune of the block",
			fmt.Sprintf("under %s the pattern \"@(a|b)\" matches two strings, but HasMeta ignores %q (and the mode): HasMeta false does not imply a single match", modeBit(info, extCond), string(miss)))
	}
	if nExt == 0 {
		r.Notef("R18: regexpNext has no mode-dependent operator block")
	}
	// any other mode-dependent special-casing of a rune inside the main switch arms is already in R0.
	_ = mR
}

// modeBit renders the Mode constant tested by `mode&X != 0`, if cond is one.
func modeBit(info *types.Info, cond ast.Expr) string {
	be, ok := ast.Unparen(cond).(*ast.BinaryExpr)
	if !ok || be.Op != token.NEQ {
		return ""
	}
	and, ok := ast.Unparen(be.X).(*ast.BinaryExpr)
	if !ok || and.Op != token.AND {
		return ""
	}
	if id, ok := ast.Unparen(and.Y).(*ast.Ident); ok {
		if c, ok := info.Uses[id].(*types.Const); ok && typeName(c.Type()) == "Mode" {
			return c.Name()
		}
	}
	return ""
}

func bodyReturnsTrue(info *types.Info, body []ast.Stmt) bool {
	for _, st := range body {
		if rs, ok := st.(*ast.ReturnStmt); ok && len(rs.Results) == 1 {
			if tv := info.Types[rs.Results[0]]; tv.Value != nil && tv.Value.Kind() == constant.Bool && constant.BoolVal(tv.Value) {
				return true
			}
		}
	}
	return false
}

var c18Controls = []Control{
	{Name: "escaped-characters-left-unquoted", Rule: "R18e", WantKey: "wordFields#the character after a backslash", File: "expand/expand.go",
		Mutate: ctlReplaceAnywhere("\t\t\t\tcurField = append(curField,\n\t\t\t\t\tfieldPart{val: before},\n\t\t\t\t\tfieldPart{quote: quoteSingle, val: after[:size]})\n", "\t\t\t\tcurField = append(curField,\n\t\t\t\t\tfieldPart{val: before},\n\t\t\t\t\tfieldPart{val: after[:size]})\n")},
	{Name: "literal-path-element-joined-with-its-escapes", Rule: "R18d", WantKey: "glob#part, found to have no metacharacters", File: "expand/expand.go",
		Mutate: ctlReplaceAnywhere("\t\t\tpart := internal.UnescapePattern(part)\n", "")},
	{Name: "regexp-shortcut-forgets-plus", Rule: "R18b", WantKey: "short-cut set covers", File: "pattern/pattern.go",
		Mutate: ctlReplaceAnywhere("case '*', '?', '[', '\\\\', '.', '+', '(', ')', '|',", "case '*', '?', '[', '\\\\', '.', '(', ')', '|',")},
	{Name: "quotemeta-loop-forgets-bracket", Rule: "R18", WantKey: "scan set = escape set", File: "pattern/pattern.go",
		Mutate: ctlReplace("QuoteMeta", "case '*', '?', '[', '\\\\':\n\t\t\tsb.WriteByte('\\\\')", "case '*', '?', '\\\\':\n\t\t\tsb.WriteByte('\\\\')", 0)},
	{Name: "hasmeta-new-meta", Rule: "R18", WantKey: "HasMeta#meta bytes", File: "pattern/pattern.go",
		Mutate: ctlReplace("HasMeta", "case '*', '?':\n\t\t\treturn true", "case '*', '?', '+':\n\t\t\treturn true", 0)},
	{Name: "regexp-new-special-rune", Rule: "R18", WantKey: "special runes", File: "pattern/pattern.go",
		Mutate: ctlReplace("regexpNext", "case '\\x00':\n\t\treturn io.EOF", "case '\\x00':\n\t\treturn io.EOF\n\tcase '~':\n\t\tsb.WriteString(`.?`)", 0)},
}
