package main

import (
	"fmt"
	"go/ast"
	"go/constant"
	"go/token"
	"go/types"

	"golang.org/x/tools/go/packages"
)

// R06k: the read cursor. Every index of the read buffer at the cursor itself (p.bs[p.bsp]) is reached only
//   (a) past a test that the cursor is below len(p.bs) (the false edge of `bsp >= len(bs)`), or
//   (b) past the false edge of `p.fill() == 0` — which relies on fill's contract "a non-zero result leaves the cursor
//       at the start of a non-empty buffer". That contract is checked where it is made: in fill, every store to the
//       cursor is the constant 0, or is dominated by a test that len(p.bs) exceeds the stored value.
func checkCursorContract(p *Prog, r *Result, pkg *packages.Package, rule string) {
	info := pkg.TypesInfo
	parserT := lookupType(pkg, "Parser")
	pst := parserT.Underlying().(*types.Struct)
	var bsF, bspF *types.Var
	for i := 0; i < pst.NumFields(); i++ {
		switch pst.Field(i).Name() {
		case "bs":
			bsF = pst.Field(i)
		case "bsp":
			bspF = pst.Field(i)
		}
	}
	fillFn := lookupFunc(pkg, "Parser.fill")
	if bsF == nil || bspF == nil || fillFn == nil {
		r.Fatalf("anchors Parser.bs / Parser.bsp / Parser.fill not found")
		return
	}
	isField := func(e ast.Expr, f *types.Var) bool { return selectorField(info, stripConv(info, e)) == f }
	isLenBs := func(e ast.Expr) bool {
		e = stripConv(info, e)
		c, ok := e.(*ast.CallExpr)
		return ok && isBuiltinCall(info, c, "len") && isField(c.Args[0], bsF)
	}
	// edge says "cursor < len(bs)"
	cursorBelow := func(e *FEdge) bool {
		b, ok := ast.Unparen(e.Cond).(*ast.BinaryExpr)
		if !ok || e.Tag != nil {
			return false
		}
		switch {
		case isField(b.X, bspF) && isLenBs(b.Y):
			return (b.Op == token.GEQ && !e.Pol) || (b.Op == token.LSS && e.Pol)
		case isLenBs(b.X) && isField(b.Y, bspF):
			return (b.Op == token.LEQ && !e.Pol) || (b.Op == token.GTR && e.Pol)
		}
		return false
	}
	// edge says "fill() != 0"
	usesContract := false
	fillNonZero := func(e *FEdge) bool {
		b, ok := ast.Unparen(e.Cond).(*ast.BinaryExpr)
		if !ok || e.Tag != nil {
			return false
		}
		c, ok := ast.Unparen(b.X).(*ast.CallExpr)
		if !ok || calleeOf(info, c) != fillFn {
			return false
		}
		tv, ok := info.Types[b.Y]
		if !ok || tv.Value == nil || constant.Sign(tv.Value) != 0 {
			return false
		}
		return (b.Op == token.EQL && !e.Pol) || (b.Op == token.NEQ && e.Pol) || (b.Op == token.GTR && e.Pol)
	}
	for _, fd := range p.AllFuncDecls("syntax") {
		var g *FGraph
		ast.Inspect(fd.Body, func(n ast.Node) bool {
			ix, ok := n.(*ast.IndexExpr)
			if !ok || !isField(ix.X, bsF) || !isField(ix.Index, bspF) {
				return true
			}
			if g == nil {
				g = NewFGraph(info, fd.Body, nil)
			}
			blk := blockContaining(g, ix)
			key := funcKey("syntax", fd) + "#" + exprString(ix)
			if blk == nil {
				r.Undecided(rule, key, ix.Pos(), "index not found in the flow graph")
				return true
			}
			contract := false
			ok2 := underEdges(g, blk, func(e *FEdge) bool {
				if cursorBelow(e) {
					return true
				}
				if fillNonZero(e) {
					contract = true
					return true
				}
				return false
			})
			if ok2 && contract {
				usesContract = true
			}
			how := "reached only past a test that the cursor is below len(p.bs)"
			if contract {
				how = "reached only past `cursor < len` or `fill() != 0` (relies on fill's contract, checked below)"
			}
			r.Check(ok2, rule, key, ix.Pos(), how,
				"the read buffer is indexed at the cursor on a path that neither tested the cursor against len(p.bs) nor saw fill() return non-zero: index out of range at the end of a chunk")
			return true
		})
	}
	// fill's contract
	fd := p.FuncDecl("syntax", "Parser.fill")
	g := NewFGraph(info, fd.Body, nil)
	nStores := 0
	inspectNoLit(fd.Body, func(n ast.Node) bool {
		check := func(at ast.Node, lhs, rhs ast.Expr, desc string) {
			if !isField(lhs, bspF) {
				return
			}
			nStores++
			key := funcKey("syntax", fd) + "#cursor store " + desc
			if rhs != nil {
				if tv, ok := info.Types[rhs]; ok && tv.Value != nil && constant.Sign(tv.Value) == 0 {
					r.OK(rule, key, at.Pos(), "stores 0: a non-zero result of fill leaves the cursor at the start of the new bytes")
					return
				}
			}
			// dominated by len(p.bs) > value ?
			blk := blockContaining(g, at)
			guarded := blk != nil && rhs != nil && underEdges(g, blk, func(e *FEdge) bool {
				b, ok := ast.Unparen(e.Cond).(*ast.BinaryExpr)
				if !ok || e.Tag != nil {
					return false
				}
				want := exprString(stripConv(info, rhs))
				switch {
				case isLenBs(b.X) && exprString(stripConv(info, b.Y)) == want:
					return (b.Op == token.GTR && e.Pol) || (b.Op == token.LEQ && !e.Pol)
				case isLenBs(b.Y) && exprString(stripConv(info, b.X)) == want:
					return (b.Op == token.LSS && e.Pol) || (b.Op == token.GEQ && !e.Pol)
				}
				return false
			})
			r.Check(guarded || !usesContract, rule, key, at.Pos(), "dominated by a test that len(p.bs) exceeds the stored value",
				"fill moves the cursor to a non-zero position without testing that the buffer is longer than that: callers index p.bs at the cursor as soon as fill returns non-zero, so a chunk that ends exactly there is an index out of range")
		}
		switch x := n.(type) {
		case *ast.AssignStmt:
			for i, l := range x.Lhs {
				var rhs ast.Expr
				if len(x.Rhs) == len(x.Lhs) && x.Tok == token.ASSIGN {
					rhs = x.Rhs[i]
				}
				check(x, l, rhs, exprString(l)+" "+x.Tok.String())
			}
		case *ast.IncDecStmt:
			check(x, x.X, nil, exprString(x.X)+x.Tok.String())
		}
		return true
	})
	if nStores == 0 {
		r.Undecided(rule, funcKey("syntax", fd)+"#cursor store", fd.Pos(), "fill no longer stores the cursor: the contract its callers rely on is made somewhere this rule does not look")
	}
	// The other half of the contract: fill never drops a byte that was not read yet. rune() calls it in the middle of
	// a multi-byte rune and, when it answers 0, goes on to slice p.bs[p.bsp:p.bsp+w] — the bytes it looked at before
	// the call. So every store to p.bs in fill keeps `left` = len(p.bs) - int(p.bsp) bytes (a slice of the read
	// buffer up to left or beyond, after they were copied to its start), or stores nil where left is not positive.
	var leftObj types.Object
	inspectNoLit(fd.Body, func(n ast.Node) bool {
		as, ok := n.(*ast.AssignStmt)
		if !ok || as.Tok != token.DEFINE || len(as.Lhs) != 1 || len(as.Rhs) != 1 {
			return true
		}
		be, ok := ast.Unparen(as.Rhs[0]).(*ast.BinaryExpr)
		if !ok || be.Op != token.SUB || !isLenBs(be.X) {
			return true
		}
		if y := stripConv(info, be.Y); isField(y, bspF) {
			if id, ok := as.Lhs[0].(*ast.Ident); ok {
				leftObj = info.Defs[id]
			}
		}
		return true
	})
	isLeft := func(e ast.Expr) bool {
		id, ok := ast.Unparen(e).(*ast.Ident)
		return ok && leftObj != nil && info.Uses[id] == leftObj
	}
	nBs := 0
	inspectNoLit(fd.Body, func(n ast.Node) bool {
		as, ok := n.(*ast.AssignStmt)
		if !ok || len(as.Lhs) != len(as.Rhs) {
			return true
		}
		for i, l := range as.Lhs {
			if !isField(l, bsF) {
				continue
			}
			nBs++
			key := fmt.Sprintf("%s#store %d to p.bs keeps the unread bytes", funcKey("syntax", fd), nBs)
			rhs := ast.Unparen(as.Rhs[i])
			ok, how := false, ""
			if se, isSlice := rhs.(*ast.SliceExpr); isSlice && se.Low == nil && se.High != nil && exprString(se.X) == "p.readBuf" {
				hi := ast.Unparen(se.High)
				if isLeft(hi) {
					ok, how = true, "the read buffer up to `left`"
				} else if be, isBin := hi.(*ast.BinaryExpr); isBin && be.Op == token.ADD && (isLeft(be.X) || isLeft(be.Y)) {
					ok, how = true, "the read buffer up to `left` plus what was read"
				}
				if ok {
					// the unread bytes were moved to the start first
					blk := blockContaining(g, as)
					moved := false
					if blk != nil {
						moved, _ = g.MustPass(g.Entry, -1, blk, func(m ast.Node) bool {
							for _, c := range nodeCalls(m) {
								if id, isID := ast.Unparen(c.Fun).(*ast.Ident); isID && id.Name == "copy" && len(c.Args) == 2 {
									d, dOK := ast.Unparen(c.Args[0]).(*ast.SliceExpr)
									s2, sOK := ast.Unparen(c.Args[1]).(*ast.SliceExpr)
									if dOK && sOK && exprString(d.X) == "p.readBuf" && d.Low == nil && d.High != nil && isLeft(d.High) &&
										exprString(s2.X) == "p.readBuf" && s2.Low != nil && isField(stripConv(info, s2.Low), bspF) {
										return true
									}
								}
							}
							return false
						}, nil)
					}
					if !moved {
						ok, how = false, "the unread bytes are not copied to the start of the read buffer on every path to this store"
					}
				}
			} else if isNilIdent(info, rhs) {
				blk := blockContaining(g, as)
				if blk != nil && underEdges(g, blk, func(e *FEdge) bool {
					b, isBin := ast.Unparen(e.Cond).(*ast.BinaryExpr)
					if !isBin || e.Tag != nil || !isLeft(b.X) {
						return false
					}
					tv, has := info.Types[b.Y]
					if !has || tv.Value == nil || constant.Sign(tv.Value) != 0 {
						return false
					}
					return (b.Op == token.GTR && !e.Pol) || (b.Op == token.LEQ && e.Pol) || (b.Op == token.EQL && e.Pol) || (b.Op == token.NEQ && !e.Pol)
				}) {
					ok, how = true, "nil where `left` is zero: there was nothing unread"
				} else {
					how = "the buffer is emptied on a path that did not find `left` to be zero"
				}
			} else {
				how = "stores something other than the read buffer up to `left`"
			}
			r.Check(ok, rule, key, as.Pos(), how,
				"fill replaces the buffer without keeping the bytes that were not read yet ("+how+"): rune() calls fill in the middle of a multi-byte rune and, on a zero answer, slices the bytes it was looking at — a truncated rune at the end of the input is then a slice out of range in Parse")
		}
		return true
	})
	if nBs == 0 || leftObj == nil {
		r.Undecided(rule, funcKey("syntax", fd)+"#store to p.bs keeps the unread bytes", fd.Pos(), "fill no longer computes the unread length as len(p.bs) - int(p.bsp), or no longer stores p.bs: the rule does not see how the unread bytes are kept")
	}
}

// blockContaining finds the block holding the graph node that contains n.
func blockContaining(g *FGraph, n ast.Node) *FBlock {
	for _, b := range g.Blocks {
		for _, nd := range b.Nodes {
			if nd.Pos() <= n.Pos() && n.End() <= nd.End() {
				found := false
				inspectNoLit(nd, func(x ast.Node) bool {
					if x == n {
						found = true
					}
					return !found
				})
				if found {
					if _, isRange := nd.(*ast.RangeStmt); isRange {
						continue
					}
					return b
				}
			}
		}
	}
	return nil
}
