package main

import (
	"fmt"
	"go/ast"
	"go/constant"
	"go/token"
	"go/types"
	"sort"
)

// R04e: sibling agreement between the interpreter and the simplifier on which test operators take a pattern on their
// right-hand side. The interpreter's clause that evaluates Y with Runner.pattern lists them; wherever the simplifier
// switches on a test operator and rewrites the operands in its default arm (unquoting turns a literal string into a
// pattern), each of those operators must be listed in a non-default clause, or be normalised away — an
// `if op == M { op = N }` with N listed — before the switch in the same statement list.
func checkPatternOperatorAgreement(p *Prog, r *Result, rule string) {
	syn, itp := p.Pkg("syntax"), p.Pkg("interp")
	if syn == nil || itp == nil {
		r.Fatalf("packages syntax/interp not loaded")
		return
	}
	opT := lookupType(syn, "BinTestOperator")
	patFn := lookupFunc(itp, "Runner.pattern")
	if opT == nil || patFn == nil {
		r.Fatalf("anchors syntax.BinTestOperator / interp.Runner.pattern not found")
		return
	}
	constName := func(info *types.Info, e ast.Expr) (string, bool) {
		tv, ok := info.Types[e]
		if !ok || tv.Value == nil || namedOf(tv.Type) != opT {
			return "", false
		}
		v, _ := constant.Int64Val(tv.Value)
		// name by value, from the syntax package scope
		for _, n := range syn.Types.Scope().Names() {
			if c, ok := syn.Types.Scope().Lookup(n).(*types.Const); ok && namedOf(c.Type()) == opT {
				if cv, _ := constant.Int64Val(c.Val()); cv == v {
					return n, true
				}
			}
		}
		return "", false
	}
	// interpreter side
	pat := map[string]bool{}
	for _, fd := range p.AllFuncDecls("interp") {
		ast.Inspect(fd.Body, func(n ast.Node) bool {
			sw, ok := n.(*ast.SwitchStmt)
			if !ok || sw.Tag == nil || namedOf(itp.TypesInfo.TypeOf(sw.Tag)) != opT {
				return true
			}
			for _, s := range sw.Body.List {
				cc := s.(*ast.CaseClause)
				calls := false
				for _, st := range cc.Body {
					for _, c := range nodeCallsDeep(st) {
						if calleeOf(itp.TypesInfo, c) == patFn {
							calls = true
						}
					}
				}
				if !calls {
					continue
				}
				for _, e := range cc.List {
					if name, ok := constName(itp.TypesInfo, e); ok {
						pat[name] = true
					}
				}
			}
			return true
		})
	}
	if len(pat) == 0 {
		r.Undecided(rule, "interp#pattern operators", token.NoPos, "no clause of a switch over syntax.BinTestOperator in package interp calls Runner.pattern: the set of pattern operators cannot be read off the interpreter")
		return
	}
	var patNames []string
	for n := range pat {
		patNames = append(patNames, n)
	}
	sort.Strings(patNames)
	r.Notef("%s: pattern operators according to the interpreter: %v", rule, patNames)

	// simplifier side
	info := syn.TypesInfo
	simpT := lookupType(syn, "simplifier")
	n := 0
	for _, fd := range p.AllFuncDecls("syntax") {
		if fd.Recv == nil || len(fd.Recv.List) == 0 || namedOf(derefType(info.TypeOf(fd.Recv.List[0].Type))) != simpT {
			continue
		}
		var visitList func(list []ast.Stmt)
		visitList = func(list []ast.Stmt) {
			for i, st := range list {
				sw, ok := st.(*ast.SwitchStmt)
				if ok && sw.Tag != nil && namedOf(info.TypeOf(sw.Tag)) == opT {
					listed := map[string]bool{}
					var def *ast.CaseClause
					for _, s := range sw.Body.List {
						cc := s.(*ast.CaseClause)
						if cc.List == nil {
							def = cc
						}
						for _, e := range cc.List {
							if name, ok := constName(info, e); ok {
								listed[name] = true
							}
						}
					}
					rewrites := false
					if def != nil {
						for _, s := range def.Body {
							for _, c := range nodeCallsDeep(s) {
								if callee := calleeOf(info, c); callee != nil {
									if sig := callee.Type().(*types.Signature); sig.Recv() != nil && namedOf(derefType(sig.Recv().Type())) == simpT {
										rewrites = true
									}
								}
							}
						}
					}
					if rewrites {
						tag := exprString(sw.Tag)
						// normalisations before the switch in this list
						norm := map[string]string{}
						for _, prev := range list[:i] {
							is, ok := prev.(*ast.IfStmt)
							if !ok || is.Else != nil {
								continue
							}
							b, ok := ast.Unparen(is.Cond).(*ast.BinaryExpr)
							if !ok || b.Op != token.EQL || exprString(b.X) != tag {
								continue
							}
							from, ok := constName(info, b.Y)
							if !ok {
								continue
							}
							for _, bs := range is.Body.List {
								if as, ok := bs.(*ast.AssignStmt); ok && len(as.Lhs) == 1 && exprString(as.Lhs[0]) == tag {
									if to, ok := constName(info, as.Rhs[0]); ok {
										norm[from] = to
									}
								}
							}
						}
						for _, name := range patNames {
							n++
							key := fmt.Sprintf("%s#switch %s: %s protected from the default rewrite", funcKey("syntax", fd), tag, name)
							to, normalised := norm[name]
							switch {
							case listed[name]:
								r.OK(rule, key, sw.Pos(), "listed in a non-default clause")
							case normalised && listed[to]:
								r.OK(rule, key, sw.Pos(), "turned into "+to+", which is listed, before the switch")
							default:
								r.Bad(rule, key, sw.Pos(), fmt.Sprintf("the interpreter evaluates the right-hand side of %s as a pattern, but here %s reaches the default arm, which rewrites the operands (unquoting turns a literal string into a pattern): `[[ x %s \"$p\" ]]` changes meaning", name, name, "="))
							}
						}
					}
				}
				// recurse into nested statement lists
				switch x := st.(type) {
				case *ast.BlockStmt:
					visitList(x.List)
				case *ast.IfStmt:
					visitList(x.Body.List)
					if eb, ok := x.Else.(*ast.BlockStmt); ok {
						visitList(eb.List)
					}
				case *ast.ForStmt:
					visitList(x.Body.List)
				case *ast.RangeStmt:
					visitList(x.Body.List)
				case *ast.SwitchStmt:
					for _, s := range x.Body.List {
						visitList(s.(*ast.CaseClause).Body)
					}
				case *ast.TypeSwitchStmt:
					for _, s := range x.Body.List {
						visitList(s.(*ast.CaseClause).Body)
					}
				}
			}
		}
		visitList(fd.Body.List)
	}
	if n == 0 {
		r.Undecided(rule, "syntax.(simplifier)#operator switch with a rewriting default", token.NoPos, "the simplifier no longer has a switch over a test operator whose default arm rewrites operands: the protection of pattern operands is made somewhere this rule does not see")
	}
}
