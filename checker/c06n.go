package main

import (
	"fmt"
	"go/ast"
	"go/constant"
	"go/token"
	"go/types"
	"sort"
	"strings"

	"golang.org/x/tools/go/packages"
)

// R06n: the consumers of a tree (Walk, on which Simplify and the printers' callers build, and the Pos/End methods, which
// typedjson calls on every node) dereference some fields without a nil test: Walk(node.Y, f) on a nil interface panics
// with "unexpected node type <nil>", b.Y.End() is a nil dereference. The rule takes that list of fields from the
// consumers themselves and then decides, for every place in package syntax that builds such a node, that the field holds
// a value which is not nil — or that an error has been reported by then, in which case no tree is handed out.
//
// Forward dataflow per function over access paths (`y`, `ue.X`): a path may be nil after `x := f()` unless f's summary
// says "non-nil or an error was reported" (greatest fixpoint over the package), after `x = nil`, as a field a composite
// literal leaves out, or on the nil side of a nil test; it stops being so on the non-nil side of a test and after an
// assignment from a fresh node. A call that always reports an error (the mustError set of R11a) ends the path's
// obligations. Values that are parameters become requirements on every call site.
//
// Decided: scalar fields only. Elements of the lists walkList traverses are not covered.

type nilFact struct {
	errored bool
	tok     string // the constant p.tok is known to equal, "" when unknown
	nil     map[string]string // access path -> where the possible nil comes from
}

type mandField struct {
	typ, field string
	why        string
}

func mandatoryTreeFields(p *Prog, pkg *packages.Package) map[string]mandField {
	info := pkg.TypesInfo
	out := map[string]mandField{}
	add := func(holder ast.Expr, sel *ast.SelectorExpr, why string) {
		fv := selectorField(info, sel)
		nt := namedOf(info.TypeOf(holder))
		if fv == nil || nt == nil {
			return
		}
		switch fv.Type().Underlying().(type) {
		case *types.Pointer, *types.Interface:
		default:
			return
		}
		k := nt.Obj().Name() + "." + fv.Name()
		if _, ok := out[k]; !ok {
			out[k] = mandField{nt.Obj().Name(), fv.Name(), why}
		}
	}
	for _, fd := range p.AllFuncDecls("syntax") {
		if fd.Body == nil || strings.HasSuffix(p.Position(fd.Pos()), "_test.go") {
			continue
		}
		isWalk := fd.Recv == nil && fd.Name.Name == "Walk"
		isPosEnd := fd.Recv != nil && (fd.Name.Name == "Pos" || fd.Name.Name == "End")
		if !isWalk && !isPosEnd {
			continue
		}
		g := NewFGraph(info, fd.Body, nil)
		// the dereference runs whenever the method does (for Walk: whenever the node has that type): it is reached
		// over unconditional and type-case edges alone. A dereference under some other condition (Assign.Pos uses
		// Value only when there is no Name) makes the field mandatory for some shapes only, which this rule leaves alone.
		always := g.Reachable(g.Entry, func(e *FEdge) bool {
			if e.Cond == nil || e.TypeCase {
				return true
			}
			// a condition that reads no field (Walk's `!f(node)`) says nothing about the node's shape
			readsField := false
			ast.Inspect(e.Cond, func(m ast.Node) bool {
				if se, ok := m.(*ast.SelectorExpr); ok && selectorField(info, se) != nil {
					readsField = true
				}
				return !readsField
			})
			return !readsField && e.Tag == nil
		})
		unguarded := func(at ast.Node, path string) bool {
			blk := blockContaining(g, at)
			return blk != nil && always[blk]
		}
		inspectNoLit(fd.Body, func(n ast.Node) bool {
			c, ok := n.(*ast.CallExpr)
			if !ok {
				return true
			}
			if isWalk {
				if id, ok := ast.Unparen(c.Fun).(*ast.Ident); ok && id.Name == "Walk" && len(c.Args) == 2 {
					if se, ok := ast.Unparen(c.Args[0]).(*ast.SelectorExpr); ok && unguarded(c, exprString(se)) {
						add(se.X, se, "Walk passes it on without a nil test")
					}
				}
				return true
			}
			fs, ok := ast.Unparen(c.Fun).(*ast.SelectorExpr)
			if !ok {
				return true
			}
			se, ok := ast.Unparen(fs.X).(*ast.SelectorExpr)
			if !ok {
				return true
			}
			if id, ok := ast.Unparen(se.X).(*ast.Ident); !ok || fd.Recv == nil || len(fd.Recv.List) == 0 || len(fd.Recv.List[0].Names) == 0 || id.Name != fd.Recv.List[0].Names[0].Name {
				return true
			}
			if unguarded(c, exprString(se)) {
				add(se.X, se, fmt.Sprintf("%s.%s calls %s on it without a nil test", recvTypeName(fd), fd.Name.Name, fs.Sel.Name))
			}
			return true
		})
	}
	return out
}

type nilAnalysis struct {
	p       *Prog
	pkg     *packages.Package
	info    *types.Info
	fg      *funcGraphs
	me      map[*types.Func]bool
	mand    map[string]mandField
	summary map[*types.Func]bool         // result is non-nil, or an error was reported
	trueNN  map[*types.Func]map[int]bool // predicate: a true answer implies parameter i is not nil
	req     map[*types.Func]map[int]string
	passes  map[*types.Func]map[int]bool // the result can be one of these parameters, handed back
	isParam map[*types.Var]bool
	tokMemo map[string]bool              // callee + token -> the result is not nil when it is called on that token
	tokBusy map[string]bool
	tokUsed map[string]bool
}

// tokSummary: called while the current token is k, the function returns a value that is not nil (or reports an error).
func (a *nilAnalysis) tokSummary(callee *types.Func, k string) bool {
	key := callee.FullName() + "@" + k
	if v, ok := a.tokMemo[key]; ok {
		return v
	}
	if a.tokBusy[key] {
		return false
	}
	a.tokBusy[key] = true
	_, retOK, _, _, passed := a.analyse(callee, k)
	delete(a.tokBusy, key)
	ok := retOK && len(passed) == 0
	a.tokMemo[key] = ok
	if ok {
		a.tokUsed[callee.Name()+" on "+k] = true
	}
	return ok
}

// tokTest: the edge compares p.tok with a constant: its name, and whether the comparison is an equality.
func tokTest(info *types.Info, e *FEdge) (string, bool, bool) {
	if e.Tag != nil {
		if exprString(e.Tag) != "p.tok" {
			return "", false, false
		}
		if id, ok := ast.Unparen(e.Cond).(*ast.Ident); ok {
			if _, isConst := info.ObjectOf(id).(*types.Const); isConst {
				return id.Name, true, true
			}
		}
		return "", false, false
	}
	be, ok := ast.Unparen(e.Cond).(*ast.BinaryExpr)
	if !ok || (be.Op != token.EQL && be.Op != token.NEQ) {
		return "", false, false
	}
	x, y := be.X, be.Y
	if exprString(y) == "p.tok" {
		x, y = y, x
	}
	if exprString(x) != "p.tok" {
		return "", false, false
	}
	if id, ok := ast.Unparen(y).(*ast.Ident); ok {
		if _, isConst := info.ObjectOf(id).(*types.Const); isConst {
			return id.Name, be.Op == token.EQL, true
		}
	}
	return "", false, false
}

func nodePtrType(t types.Type) bool {
	if t == nil {
		return false
	}
	switch t.Underlying().(type) {
	case *types.Pointer, *types.Interface:
		return true
	}
	return false
}

func (f nilFact) with(k, v string) nilFact {
	if cur, ok := f.nil[k]; ok && cur == v {
		return f
	}
	nf := nilFact{errored: f.errored, tok: f.tok, nil: make(map[string]string, len(f.nil)+1)}
	for a, b := range f.nil {
		nf.nil[a] = b
	}
	nf.nil[k] = v
	return nf
}

func (f nilFact) without(k string) nilFact {
	found := false
	for a := range f.nil {
		if a == k || strings.HasPrefix(a, k+".") {
			found = true
		}
	}
	if !found {
		return f
	}
	nf := nilFact{errored: f.errored, tok: f.tok, nil: map[string]string{}}
	for a, b := range f.nil {
		if a == k || strings.HasPrefix(a, k+".") {
			continue
		}
		nf.nil[a] = b
	}
	return nf
}

// pathOf: `x` or `x.F.G` built from identifiers only.
func pathOf(e ast.Expr) (string, bool) {
	switch x := ast.Unparen(e).(type) {
	case *ast.Ident:
		if x.Name == "_" {
			return "", false
		}
		return x.Name, true
	case *ast.SelectorExpr:
		if b, ok := pathOf(x.X); ok {
			return b + "." + x.Sel.Name, true
		}
	}
	return "", false
}

// state of an expression: "" when it is not nil (or trusted), otherwise where the nil may come from.
func (a *nilAnalysis) state(f nilFact, e ast.Expr) string {
	e = ast.Unparen(e)
	if isNilIdent(a.info, e) {
		return "nil"
	}
	switch x := e.(type) {
	case *ast.UnaryExpr:
		return ""
	case *ast.CompositeLit, *ast.FuncLit, *ast.BasicLit:
		return ""
	case *ast.Ident, *ast.SelectorExpr:
		if pth, ok := pathOf(x); ok {
			return f.nil[pth]
		}
		return ""
	case *ast.TypeAssertExpr:
		return ""
	case *ast.CallExpr:
		if tv, ok := a.info.Types[x.Fun]; ok && tv.IsType() {
			if len(x.Args) == 1 {
				return a.state(f, x.Args[0])
			}
			return ""
		}
		callee := calleeOf(a.info, x)
		if callee == nil {
			if _, ok := a.info.Uses[identOf(x.Fun)].(*types.Builtin); ok {
				return ""
			}
			// a closure of this very function (SplitBraces' pop) is not followed; only function values that come
			// in as parameters can be anything
			if id, ok := ast.Unparen(x.Fun).(*ast.Ident); ok {
				if v, ok := a.info.Uses[id].(*types.Var); ok && !a.isParam[v] {
					return ""
				}
			}
			return "the result of the function value " + exprString(x.Fun)
		}
		if callee.Pkg() != a.pkg.Types {
			return ""
		}
		if _, ok := a.fg.decls[callee]; !ok {
			return ""
		}
		if a.summary[callee] {
			// the result is nil only if one of the arguments it hands back is
			var is []int
			for i := range a.passes[callee] {
				is = append(is, i)
			}
			sort.Ints(is)
			for _, i := range is {
				if i < len(x.Args) {
					if st := a.state(f, x.Args[i]); st != "" {
						return st
					}
				}
			}
			return ""
		}
		if f.tok != "" && a.tokSummary(callee, f.tok) {
			return ""
		}
		return "the result of " + callee.Name() + ", which can be nil with no error reported"
	}
	return ""
}

func identOf(e ast.Expr) *ast.Ident {
	switch x := ast.Unparen(e).(type) {
	case *ast.Ident:
		return x
	case *ast.SelectorExpr:
		return x.Sel
	}
	return nil
}

type nilObligation struct {
	key    string
	pos    token.Pos
	origin string // "" = fine
	what   string
}

// analyse runs the dataflow of one function. It returns the obligations of that function, whether every returned value
// is non-nil-or-errored, and the requirements it places on its own parameters.
func (a *nilAnalysis) analyse(fo *types.Func, assumeTok string) (obls []nilObligation, retOK bool, params map[int]string, truePred map[int]bool, passed map[int]bool) {
	passed = map[int]bool{}
	fd := a.fg.decls[fo]
	g := a.fg.graph(fo)
	info := a.info
	rel := "syntax"
	params = map[int]string{}
	paramIdx := map[string]int{}
	init := nilFact{tok: assumeTok, nil: map[string]string{}}
	idx := 0
	if fd.Type.Params != nil {
		for _, fl := range fd.Type.Params.List {
			for _, nm := range fl.Names {
				if nodePtrType(info.TypeOf(fl.Type)) && nm.Name != "_" {
					if _, isFn := info.TypeOf(fl.Type).Underlying().(*types.Signature); !isFn {
						paramIdx[nm.Name] = idx
						init.nil[nm.Name] = "param:" + nm.Name
					}
				}
				idx++
			}
			if len(fl.Names) == 0 {
				idx++
			}
		}
	}
	// results named in the signature start as nil
	var namedResults []string
	if fd.Type.Results != nil {
		for _, fl := range fd.Type.Results.List {
			for _, nm := range fl.Names {
				namedResults = append(namedResults, nm.Name)
				if nodePtrType(info.TypeOf(fl.Type)) && nm.Name != "_" {
					init.nil[nm.Name] = "the named result " + nm.Name + " is never set"
				}
			}
		}
	}
	tracked := map[string]mandField{} // access path b.F -> field
	trackedPos := map[string]token.Pos{}
	mandOf := func(holder types.Type, field string) (mandField, bool) {
		nt := namedOf(holder)
		if nt == nil || nt.Obj().Pkg() != a.pkg.Types {
			return mandField{}, false
		}
		m, ok := a.mand[nt.Obj().Name()+"."+field]
		return m, ok
	}
	assign := func(f nilFact, lhs ast.Expr, st string, pos token.Pos) nilFact {
		pth, ok := pathOf(lhs)
		if !ok {
			return f
		}
		f = f.without(pth)
		if !nodePtrType(info.TypeOf(lhs)) {
			return f
		}
		if st != "" {
			f = f.with(pth, st)
		}
		if se, ok := ast.Unparen(lhs).(*ast.SelectorExpr); ok {
			if m, ok := mandOf(info.TypeOf(se.X), se.Sel.Name); ok {
				if _, seen := tracked[pth]; !seen {
					tracked[pth] = m
					trackedPos[pth] = pos
				}
			}
		}
		return f
	}
	// a literal bound to a local: its mandatory fields become paths
	bindLiteral := func(f nilFact, name string, cl *ast.CompositeLit, pos token.Pos) nilFact {
		nt := namedOf(info.TypeOf(cl))
		if nt == nil || nt.Obj().Pkg() != a.pkg.Types {
			return f
		}
		keyed := map[string]ast.Expr{}
		for _, el := range cl.Elts {
			if kv, ok := el.(*ast.KeyValueExpr); ok {
				if k, ok := kv.Key.(*ast.Ident); ok {
					keyed[k.Name] = kv.Value
				}
			}
		}
		var names []string
		for k, m := range a.mand {
			if m.typ == nt.Obj().Name() {
				names = append(names, k)
			}
		}
		sort.Strings(names)
		for _, k := range names {
			m := a.mand[k]
			pth := name + "." + m.field
			if _, seen := tracked[pth]; !seen {
				tracked[pth] = m
				trackedPos[pth] = pos
			}
			if v, ok := keyed[m.field]; ok {
				if st := a.state(f, v); st != "" {
					f = f.with(pth, st)
				}
			} else {
				f = f.with(pth, "the literal leaves it out")
			}
		}
		return f
	}
	literalOf := func(e ast.Expr) *ast.CompositeLit {
		e = ast.Unparen(e)
		if ue, ok := e.(*ast.UnaryExpr); ok && ue.Op == token.AND {
			e = ast.Unparen(ue.X)
		}
		cl, _ := e.(*ast.CompositeLit)
		return cl
	}
	boundLits := map[*ast.CompositeLit]bool{}
	assertOK := map[types.Object][]string{}
	inspectNoLit(fd.Body, func(n ast.Node) bool {
		as, ok := n.(*ast.AssignStmt)
		if !ok || len(as.Lhs) != 2 || len(as.Rhs) != 1 {
			return true
		}
		ta, ok := ast.Unparen(as.Rhs[0]).(*ast.TypeAssertExpr)
		if !ok {
			return true
		}
		okID, _ := as.Lhs[1].(*ast.Ident)
		if okID == nil || okID.Name == "_" {
			return true
		}
		var ps []string
		if pth, ok := pathOf(ta.X); ok {
			ps = append(ps, pth)
		}
		if pth, ok := pathOf(as.Lhs[0]); ok {
			ps = append(ps, pth)
		}
		obj := info.ObjectOf(okID)
		if _, dup := assertOK[obj]; dup {
			assertOK[obj] = nil // assigned twice: no conclusion
		} else {
			assertOK[obj] = ps
		}
		return true
	})
	spec := flowSpec[nilFact]{
		Init: init,
		Join: func(x, y nilFact) nilFact {
			if x.errored {
				return y
			}
			if y.errored {
				return x
			}
			nf := nilFact{nil: make(map[string]string, len(x.nil)+len(y.nil))}
			if x.tok == y.tok {
				nf.tok = x.tok
			}
			for k, v := range x.nil {
				nf.nil[k] = v
			}
			for k, v := range y.nil {
				if _, ok := nf.nil[k]; !ok {
					nf.nil[k] = v
				}
			}
			return nf
		},
		Equal: func(x, y nilFact) bool {
			if x.errored != y.errored || x.tok != y.tok || len(x.nil) != len(y.nil) {
				return false
			}
			for k := range x.nil {
				if _, ok := y.nil[k]; !ok {
					return false
				}
			}
			return true
		},
		Node: func(f nilFact, n ast.Node) (out nilFact) {
			if f.errored {
				return f
			}
			if nodeCallsAny(info, n, a.me) {
				return nilFact{errored: true, nil: map[string]string{}}
			}
			if f.tok != "" && len(nodeCalls(n)) > 0 {
				// any call may read the next token; what the right-hand sides are worth is settled before that
				defer func() {
					if !out.errored && out.tok != "" {
						out = nilFact{tok: "", nil: out.nil}
					}
				}()
			}
			switch x := n.(type) {
			case *ast.AssignStmt:
				if len(x.Lhs) == len(x.Rhs) {
					sts := make([]string, len(x.Rhs))
					for i := range x.Rhs {
						sts[i] = a.state(f, x.Rhs[i])
					}
					for i, l := range x.Lhs {
						f = assign(f, l, sts[i], x.Pos())
						if cl := literalOf(x.Rhs[i]); cl != nil {
							if id, ok := ast.Unparen(l).(*ast.Ident); ok {
								boundLits[cl] = true
								f = bindLiteral(f, id.Name, cl, x.Pos())
							}
						}
					}
				} else if len(x.Rhs) == 1 {
					// v, ok := x.(T) and multi-value calls: the first value may be nil when ok is false
					for i, l := range x.Lhs {
						st := ""
						if _, isTA := ast.Unparen(x.Rhs[0]).(*ast.TypeAssertExpr); isTA && i == 0 {
							st = "a failed type assertion"
						}
						f = assign(f, l, st, x.Pos())
					}
				}
			case *ast.DeclStmt:
				if gd, ok := x.Decl.(*ast.GenDecl); ok {
					for _, sp := range gd.Specs {
						vs, ok := sp.(*ast.ValueSpec)
						if !ok {
							continue
						}
						for i, nm := range vs.Names {
							st := "declared without a value"
							if i < len(vs.Values) {
								st = a.state(f, vs.Values[i])
							}
							f = assign(f, nm, st, x.Pos())
							if i < len(vs.Values) {
								if cl := literalOf(vs.Values[i]); cl != nil {
									boundLits[cl] = true
									f = bindLiteral(f, nm.Name, cl, x.Pos())
								}
							}
						}
					}
				}
			}
			return f
		},
		Edge: func(f nilFact, e *FEdge) nilFact {
			if f.errored || e.Cond == nil || e.TypeCase {
				return f
			}
			// what the current token is: `switch p.tok { case K:` and `p.tok == K`
			if k, eq, ok := tokTest(info, e); ok {
				holds := eq == e.Pol // on this edge p.tok == k
				switch {
				case f.tok != "" && holds != (f.tok == k):
					if holds || f.tok == k {
						return nilFact{errored: true, nil: map[string]string{}} // cannot be taken
					}
				case f.tok == "" && holds:
					return nilFact{tok: k, nil: f.nil}
				}
				return f
			}
			if e.Tag != nil {
				return f
			}
			cond := ast.Unparen(e.Cond)
			if be, ok := cond.(*ast.BinaryExpr); ok && (be.Op == token.EQL || be.Op == token.NEQ) {
				x, y := be.X, be.Y
				if isNilIdent(info, x) {
					x, y = y, x
				}
				if isNilIdent(info, y) {
					pth, ok := pathOf(x)
					if !ok {
						return f
					}
					isNil := (be.Op == token.EQL) == e.Pol
					if exprString(x) == "p.err" {
						if !isNil {
							return nilFact{errored: true, nil: map[string]string{}}
						}
						return f
					}
					if !isNil {
						return f.without(pth)
					}
					if nodePtrType(info.TypeOf(x)) {
						if _, has := f.nil[pth]; !has {
							return f.with(pth, "tested and found nil")
						}
					}
				}
				return f
			}
			// `v, ok := x.(T)`: ok means neither x nor v is nil
			if id, ok := cond.(*ast.Ident); ok && e.Pol {
				if ps, ok := assertOK[info.ObjectOf(id)]; ok {
					for _, pth := range ps {
						f = f.without(pth)
					}
				}
				return f
			}
			// a predicate that answers true only for a value that is not nil
			if c, ok := cond.(*ast.CallExpr); ok && e.Pol {
				if callee := calleeOf(info, c); callee != nil {
					for i := range a.trueNN[callee] {
						if i < len(c.Args) {
							if pth, ok := pathOf(c.Args[i]); ok {
								f = f.without(pth)
							}
						}
					}
				}
			}
			return f
		},
	}
	res := runForward(g, spec)
	// tracked paths and boundLits are filled while the dataflow runs, so it has run to a fixpoint before they are read

	dedupe := map[string]int{}
	mk := func(key string) string {
		dedupe[key]++
		if dedupe[key] > 1 {
			return fmt.Sprintf("%s#%d", key, dedupe[key])
		}
		return key
	}
	note := func(o nilObligation) {
		if strings.HasPrefix(o.origin, "param:") {
			nm := strings.TrimPrefix(o.origin, "param:")
			if i, ok := paramIdx[nm]; ok {
				if _, had := params[i]; !had {
					params[i] = o.what
				}
				o.origin = ""
			}
		}
		obls = append(obls, o)
	}
	factAt := func(at ast.Node) (nilFact, bool) {
		if ff, ok := res.Before(at); ok {
			return ff, true
		}
		if b := blockContaining(g, at); b != nil {
			for i, nd := range b.Nodes {
				if nd.Pos() <= at.Pos() && at.End() <= nd.End() {
					return res.At(b, i)
				}
			}
		}
		return nilFact{}, false
	}
	// (1) literals that are not bound to a local are complete where they stand
	inspectNoLit(fd.Body, func(n ast.Node) bool {
		cl, ok := n.(*ast.CompositeLit)
		if !ok || boundLits[cl] {
			return true
		}
		nt := namedOf(info.TypeOf(cl))
		if nt == nil || nt.Obj().Pkg() != a.pkg.Types {
			return true
		}
		var names []string
		for k, m := range a.mand {
			if m.typ == nt.Obj().Name() {
				names = append(names, k)
			}
		}
		if len(names) == 0 {
			return true
		}
		sort.Strings(names)
		f, found := factAt(cl)
		keyed := map[string]ast.Expr{}
		for _, el := range cl.Elts {
			if kv, ok := el.(*ast.KeyValueExpr); ok {
				if k, ok := kv.Key.(*ast.Ident); ok {
					keyed[k.Name] = kv.Value
				}
			}
		}
		for _, k := range names {
			m := a.mand[k]
			key := mk(fmt.Sprintf("%s#%s.%s of a literal", funcKey(rel, fd), m.typ, m.field))
			o := nilObligation{key: key, pos: cl.Pos(), what: fmt.Sprintf("%s.%s of the literal at %s", m.typ, m.field, a.p.Position(cl.Pos()))}
			switch {
			case !found:
				o.origin = "?the literal was not found in the flow graph"
			case f.errored:
			default:
				if v, ok := keyed[m.field]; ok {
					o.origin = a.state(f, v)
					if o.origin != "" {
						o.what = fmt.Sprintf("%s (%s)", o.what, exprString(v))
					}
				} else {
					o.origin = "the literal leaves it out"
				}
			}
			note(o)
		}
		return true
	})
	// (2) fields set by assignment, and literals bound to a local, are complete when the function returns
	var paths []string
	for pth := range tracked {
		paths = append(paths, pth)
	}
	sort.Strings(paths)
	for _, pth := range paths {
		m := tracked[pth]
		failing := 0
		for _, e := range g.Exit.Preds {
			f, ok := res.At(e.From, len(e.From.Nodes))
			if !ok || f.errored {
				continue
			}
			f = spec.Edge(f, e)
			st, has := f.nil[pth]
			if !has {
				continue
			}
			failing++
			where, pos := "at the end of the function", trackedPos[pth]
			if len(e.From.Nodes) > 0 {
				if rs, ok := e.From.Nodes[len(e.From.Nodes)-1].(*ast.ReturnStmt); ok {
					where, pos = fmt.Sprintf("at return %d", returnOrdinal(fd, rs)), rs.Pos()
				}
			}
			note(nilObligation{key: mk(fmt.Sprintf("%s#%s (%s.%s) %s", funcKey(rel, fd), pth, m.typ, m.field, where)), pos: pos,
				origin: st, what: fmt.Sprintf("%s (%s.%s) %s", pth, m.typ, m.field, where)})
		}
		if failing == 0 {
			note(nilObligation{key: mk(fmt.Sprintf("%s#%s (%s.%s) when the function returns", funcKey(rel, fd), pth, m.typ, m.field)), pos: trackedPos[pth]})
		}
	}
	// (3) what this function returns
	retOK = true
	truePred = map[int]bool{}
	sig := fo.Type().(*types.Signature)
	isPred := sig.Results().Len() == 1 && types.Identical(sig.Results().At(0).Type(), types.Typ[types.Bool])
	for i := range paramIdx {
		_ = i
	}
	if isPred {
		for _, i := range paramIdx {
			truePred[i] = true
		}
	}
	for _, e := range g.Exit.Preds {
		blk := e.From
		if len(blk.Nodes) == 0 {
			continue
		}
		rs, ok := blk.Nodes[len(blk.Nodes)-1].(*ast.ReturnStmt)
		if !ok {
			continue
		}
		f, ok := res.At(blk, len(blk.Nodes)-1)
		if !ok {
			continue
		}
		if isPred && len(rs.Results) == 1 {
			if tv, ok := info.Types[rs.Results[0]]; ok && tv.Value != nil && tv.Value.ExactString() == "false" {
				continue
			}
			// `return a && b`: the conjuncts were not decomposed into edges; a nil test among them counts
			nn := map[string]bool{}
			for _, cj := range conjuncts(rs.Results[0]) {
				if be, ok := ast.Unparen(cj).(*ast.BinaryExpr); ok && be.Op == token.NEQ && isNilIdent(info, be.Y) {
					if pth, ok := pathOf(be.X); ok {
						nn[pth] = true
					}
				}
			}
			for nm, i := range paramIdx {
				if _, has := f.nil[nm]; has && !nn[nm] && !f.errored {
					delete(truePred, i)
				}
			}
			continue
		}
		if f.errored || sig.Results().Len() == 0 || !nodePtrType(sig.Results().At(0).Type()) {
			continue
		}
		if len(rs.Results) == 0 {
			if len(namedResults) > 0 {
				if _, has := f.nil[namedResults[0]]; has {
					retOK = false
				}
			}
			continue
		}
		if st := a.state(f, rs.Results[0]); st != "" {
			if i, ok := paramIdx[strings.TrimPrefix(st, "param:")]; ok && strings.HasPrefix(st, "param:") {
				passed[i] = true
			} else {
				retOK = false
			}
		}
	}
	// (4) arguments of calls to functions that need a parameter to be set
	inspectNoLit(fd.Body, func(n ast.Node) bool {
		c, ok := n.(*ast.CallExpr)
		if !ok {
			return true
		}
		callee := calleeOf(info, c)
		if callee == nil || len(a.req[callee]) == 0 {
			return true
		}
		f, found := factAt(c)
		var is []int
		for i := range a.req[callee] {
			is = append(is, i)
		}
		sort.Ints(is)
		for _, i := range is {
			if i >= len(c.Args) {
				continue
			}
			key := mk(fmt.Sprintf("%s#argument %d of %s", funcKey(rel, fd), i+1, callee.Name()))
			o := nilObligation{key: key, pos: c.Pos(), what: fmt.Sprintf("%s, passed to %s, which stores it as %s", exprString(c.Args[i]), callee.Name(), a.req[callee][i])}
			switch {
			case !found:
				o.origin = "?the call was not found in the flow graph"
			case f.errored:
			default:
				o.origin = a.state(f, c.Args[i])
			}
			note(o)
		}
		return true
	})
	// (5) elements appended to a list of nodes: walkList hands every element to Walk
	inspectNoLit(fd.Body, func(n ast.Node) bool {
		c, ok := n.(*ast.CallExpr)
		if !ok || len(c.Args) < 2 || c.Ellipsis.IsValid() {
			return true
		}
		if id, ok := ast.Unparen(c.Fun).(*ast.Ident); !ok || id.Name != "append" {
			return true
		} else if _, isBuiltin := info.Uses[id].(*types.Builtin); !isBuiltin {
			return true
		}
		sl, ok := info.TypeOf(c.Args[0]).Underlying().(*types.Slice)
		if !ok || !nodePtrType(sl.Elem()) {
			return true
		}
		nt := namedOf(sl.Elem())
		if nt == nil || nt.Obj().Pkg() != a.pkg.Types || !a.isNode(sl.Elem()) {
			return true
		}
		f, found := factAt(c)
		for _, v := range c.Args[1:] {
			key := mk(fmt.Sprintf("%s#element appended to %s", funcKey(rel, fd), exprString(c.Args[0])))
			o := nilObligation{key: key, pos: c.Pos(), what: fmt.Sprintf("%s, appended to %s", exprString(v), exprString(c.Args[0]))}
			switch {
			case !found:
				o.origin = "?the call was not found in the flow graph"
			case f.errored:
			default:
				o.origin = a.state(f, v)
			}
			note(o)
		}
		return true
	})
	return obls, retOK, params, truePred, passed
}

// isNode: the type implements syntax.Node.
func (a *nilAnalysis) isNode(t types.Type) bool {
	obj := a.pkg.Types.Scope().Lookup("Node")
	if obj == nil {
		return false
	}
	iface, ok := obj.Type().Underlying().(*types.Interface)
	return ok && types.Implements(t, iface)
}

func checkMandatoryFieldsSet(p *Prog, r *Result, pkg *packages.Package, rule string, exceptions map[string]string) {
	fg := newFuncGraphs(pkg)
	errPass := lookupFunc(pkg, "Parser.errPass")
	if errPass == nil {
		r.Fatalf("%s: anchor Parser.errPass not found", rule)
		return
	}
	a := &nilAnalysis{p: p, pkg: pkg, info: pkg.TypesInfo, fg: fg, me: computeMustError(fg, errPass),
		mand: mandatoryTreeFields(p, pkg), summary: map[*types.Func]bool{}, trueNN: map[*types.Func]map[int]bool{}, req: map[*types.Func]map[int]string{}, passes: map[*types.Func]map[int]bool{}, isParam: map[*types.Var]bool{}, tokMemo: map[string]bool{}, tokBusy: map[string]bool{}, tokUsed: map[string]bool{}}
	if len(a.mand) < 20 {
		r.Fatalf("%s: only %d fields found that Walk, Pos or End dereference without a test; the consumers were not recognised", rule, len(a.mand))
		return
	}
	for _, fd := range fg.decls {
		if fd.Type.Params != nil {
			for _, fl := range fd.Type.Params.List {
				for _, nm := range fl.Names {
					if v, ok := pkg.TypesInfo.Defs[nm].(*types.Var); ok {
						a.isParam[v] = true
					}
				}
			}
		}
	}
	var funcs []*types.Func
	for fo, fd := range fg.decls {
		if strings.HasSuffix(p.Position(fd.Pos()), "_test.go") {
			continue
		}
		funcs = append(funcs, fo)
		a.summary[fo] = true
	}
	sort.Slice(funcs, func(i, j int) bool { return fg.decls[funcs[i]].Pos() < fg.decls[funcs[j]].Pos() })
	var all map[*types.Func][]nilObligation
	for round := 0; round < 40; round++ {
		changed := false
		all = map[*types.Func][]nilObligation{}
		a.tokMemo = map[string]bool{}
		a.tokUsed = map[string]bool{}
		for _, fo := range funcs {
			obls, retOK, params, truePred, passed := a.analyse(fo, "")
			all[fo] = obls
			for i := range passed {
				if a.passes[fo] == nil {
					a.passes[fo] = map[int]bool{}
				}
				if !a.passes[fo][i] {
					a.passes[fo][i] = true
					changed = true
				}
			}
			if a.summary[fo] && !retOK {
				a.summary[fo] = false
				changed = true
			}
			for i, what := range params {
				if a.req[fo] == nil {
					a.req[fo] = map[int]string{}
				}
				if _, ok := a.req[fo][i]; !ok {
					a.req[fo][i] = what
					changed = true
				}
			}
			// predicates: only ever grows from nothing on the first round, then shrinks
			if round == 0 {
				if len(truePred) > 0 {
					a.trueNN[fo] = truePred
					changed = true
				}
			} else {
				for i := range a.trueNN[fo] {
					if !truePred[i] {
						delete(a.trueNN[fo], i)
						changed = true
					}
				}
			}
		}
		if !changed {
			break
		}
	}
	var fields []string
	for k := range a.mand {
		fields = append(fields, k)
	}
	sort.Strings(fields)
	r.Notef("%s: %d fields are dereferenced by Walk, Pos or End without a nil test: %s", rule, len(fields), strings.Join(fields, ", "))
	var nn []string
	for fo, ok := range a.summary {
		sig := fo.Type().(*types.Signature)
		if ok && sig.Results().Len() > 0 && nodePtrType(sig.Results().At(0).Type()) {
			nn = append(nn, fo.Name())
		}
	}
	sort.Strings(nn)
	var tu []string
	for k := range a.tokUsed {
		tu = append(tu, k)
	}
	sort.Strings(tu)
	if len(tu) > 0 {
		r.Notef("%s: results taken as not nil because of the token the call is made on: %s", rule, strings.Join(tu, ", "))
	}
	r.Notef("%s: %d functions return a value that is not nil unless an error was reported: %s", rule, len(nn), strings.Join(nn, ", "))
	for _, fo := range funcs {
		for _, o := range all[fo] {
			if proof, ok := c06NilProofs[o.key]; ok && o.origin != "" {
				if why, ok := proof(a, fg.decls[fo]); ok {
					r.OK(rule, o.key, o.pos, why)
				} else {
					r.Bad(rule, o.key, o.pos, fmt.Sprintf("%s can be nil on a path that reports no error (%s), and the argument that used to cover this site no longer holds: %s", o.what, o.origin, why))
				}
				continue
			}
			if reason, ok := exceptions[o.key]; ok {
				if o.origin == "" {
					r.OK(rule, o.key, o.pos, "set on every path (the listed exception is no longer needed)")
				} else {
					r.OK(rule, o.key, o.pos, "reasoned: "+reason)
				}
				continue
			}
			switch {
			case o.origin == "":
				r.OK(rule, o.key, o.pos, "on every path that reports no error the value is a fresh node, was tested against nil, or comes from a function with that guarantee")
			case strings.HasPrefix(o.origin, "?"):
				r.Undecided(rule, o.key, o.pos, o.origin[1:])
			default:
				r.Bad(rule, o.key, o.pos, fmt.Sprintf("%s can be nil on a path that reports no error (%s): the tree is handed out, and Walk, Simplify, Pos/End or typedjson.Encode panic on it", o.what, o.origin))
			}
		}
	}
}

// returnOrdinal: the position of a return statement among those of its function, in source order, from 1.
func returnOrdinal(fd *ast.FuncDecl, rs *ast.ReturnStmt) int {
	n, at := 0, 0
	inspectNoLit(fd.Body, func(m ast.Node) bool {
		if r, ok := m.(*ast.ReturnStmt); ok {
			n++
			if r == rs {
				at = n
			}
		}
		return true
	})
	return at
}

// c06NilProofs: sites the dataflow cannot settle, each with the structural argument that does.
var c06NilProofs = map[string]func(a *nilAnalysis, fd *ast.FuncDecl) (string, bool){
	"syntax.(Parser).coprocClause#cc.Stmt (CoprocClause.Stmt) at return 1": compoundTokensSetCmd,
}

// compoundTokensSetCmd: `coproc` followed by a token for which isBashCompoundCommand answers true stores the result of
// gotStmtPipe unchecked. That is sound when (1) the store sits under the true edge of that predicate, (2) coprocClause is
// only reached for the Bash-like variants, and (3) for every token and word the predicate lists, gotStmtPipe has a case
// that — for those variants — calls a function which sets s.Cmd or reports an error on every path, so that gotStmtPipe
// does not take its `return nil`.
func compoundTokensSetCmd(a *nilAnalysis, fd *ast.FuncDecl) (string, bool) {
	info := a.info
	pred := lookupFunc(a.pkg, "isBashCompoundCommand")
	gsp := lookupFunc(a.pkg, "Parser.gotStmtPipe")
	if pred == nil || gsp == nil || a.fg.decls[pred] == nil || a.fg.decls[gsp] == nil {
		return "isBashCompoundCommand or gotStmtPipe not found", false
	}
	// (1) the unchecked store is under the predicate
	g := a.fg.graph(info.Defs[fd.Name].(*types.Func))
	var rs1 *ast.ReturnStmt
	inspectNoLit(fd.Body, func(n ast.Node) bool {
		if r, ok := n.(*ast.ReturnStmt); ok && rs1 == nil {
			rs1 = r
		}
		return true
	})
	if rs1 == nil {
		return "coprocClause has no early return", false
	}
	blk := blockContaining(g, rs1)
	under := blk != nil && underEdges(g, blk, func(e *FEdge) bool {
		if c, ok := ast.Unparen(e.Cond).(*ast.CallExpr); ok && e.Pol && e.Tag == nil {
			return calleeOf(info, c) == pred
		}
		return false
	})
	if !under {
		return "the first return of coprocClause is not under `isBashCompoundCommand(…)`", false
	}
	// (2) callers gate on langBashLike
	bashLike := a.pkg.Types.Scope().Lookup("langBashLike")
	cBash, ok := bashLike.(*types.Const)
	if !ok {
		return "constant langBashLike not found", false
	}
	bashBits, _ := constantUint(cBash.Val())
	gated := func(st []ast.Node, want uint64) bool {
		for i := len(st) - 1; i >= 0; i-- {
			is, ok := st[i].(*ast.IfStmt)
			if !ok {
				continue
			}
			c, ok := ast.Unparen(is.Cond).(*ast.CallExpr)
			if !ok || len(c.Args) != 1 {
				continue
			}
			if se, ok := ast.Unparen(c.Fun).(*ast.SelectorExpr); !ok || se.Sel.Name != "in" {
				continue
			}
			if tv, ok := info.Types[c.Args[0]]; ok && tv.Value != nil {
				if bits, ok := constantUint(tv.Value); ok && bits&want == want {
					return true
				}
			}
		}
		return false
	}
	self := info.Defs[fd.Name].(*types.Func)
	callers := 0
	okCallers := true
	for _, cfd := range a.fg.decls {
		var stack []ast.Node
		ast.Inspect(cfd.Body, func(n ast.Node) bool {
			if n == nil {
				stack = stack[:len(stack)-1]
				return true
			}
			stack = append(stack, n)
			if c, ok := n.(*ast.CallExpr); ok && calleeOf(info, c) == self {
				callers++
				// exactly the Bash-like variants: the gate's set must not be wider
				found := false
				for i := len(stack) - 1; i >= 0; i-- {
					if is, ok := stack[i].(*ast.IfStmt); ok {
						if cc, ok := ast.Unparen(is.Cond).(*ast.CallExpr); ok && len(cc.Args) == 1 {
							if tv, ok := info.Types[cc.Args[0]]; ok && tv.Value != nil {
								if bits, ok := constantUint(tv.Value); ok && bits == bashBits {
									found = true
								}
							}
						}
					}
				}
				if !found {
					okCallers = false
				}
			}
			return true
		})
	}
	if callers == 0 || !okCallers {
		return "coprocClause is called outside `if p.lang.in(langBashLike)`", false
	}
	// functions that set s.Cmd (their *Stmt parameter) or report an error on every path
	var setsCmd func(fo *types.Func) bool
	setsBusy := map[*types.Func]bool{}
	setsCmd = func(fo *types.Func) bool {
		if setsBusy[fo] {
			return false
		}
		setsBusy[fo] = true
		defer delete(setsBusy, fo)
		cfd := a.fg.decls[fo]
		if cfd == nil || cfd.Type.Params == nil {
			return false
		}
		var param string
		for _, fl := range cfd.Type.Params.List {
			if pt, ok := info.TypeOf(fl.Type).(*types.Pointer); ok && namedOf(pt) != nil && namedOf(pt).Obj().Name() == "Stmt" && len(fl.Names) == 1 {
				param = fl.Names[0].Name
			}
		}
		if param == "" {
			return false
		}
		cg := a.fg.graph(fo)
		ok, _ := cg.MustPass(cg.Entry, -1, cg.Exit, func(n ast.Node) bool {
			if nodeCallsAny(info, n, a.me) {
				return true
			}
			if as, ok := n.(*ast.AssignStmt); ok {
				for _, l := range as.Lhs {
					if exprString(l) == param+".Cmd" {
						return true
					}
				}
			}
			// or hands the statement to a function that does
			for _, c := range nodeCalls(n) {
				for _, arg := range c.Args {
					if exprString(arg) == param {
						if callee := calleeOf(info, c); callee != nil && setsCmd(callee) {
							return true
						}
					}
				}
			}
			return false
		}, nil)
		return ok
	}
	// (3) the predicate's lists against gotStmtPipe's switch
	var toks, words []string
	ast.Inspect(a.fg.decls[pred].Body, func(n ast.Node) bool {
		cc, ok := n.(*ast.CaseClause)
		if !ok {
			return true
		}
		for _, e := range cc.List {
			if tv, ok := info.Types[e]; ok && tv.Value != nil && tv.Value.Kind().String() == "String" {
				words = append(words, strings.Trim(tv.Value.ExactString(), `"`))
			} else if id, ok := e.(*ast.Ident); ok && id.Name != "_LitWord" {
				toks = append(toks, id.Name)
			}
		}
		return true
	})
	if len(toks) == 0 || len(words) < 5 {
		return "the lists of isBashCompoundCommand were not recognised", false
	}
	clauseOK := func(cc *ast.CaseClause) (string, bool) {
		calls, unconditional := 0, 0
		bad := ""
		var stack []ast.Node
		for _, st := range cc.Body {
			ast.Inspect(st, func(n ast.Node) bool {
				if n == nil {
					stack = stack[:len(stack)-1]
					return true
				}
				stack = append(stack, n)
				c, ok := n.(*ast.CallExpr)
				if !ok {
					return true
				}
				passesS := false
				for _, arg := range c.Args {
					if exprString(arg) == "s" {
						passesS = true
					}
				}
				if !passesS {
					return true
				}
				calls++
				callee := calleeOf(info, c)
				if callee == nil || !setsCmd(callee) {
					bad = fmt.Sprintf("%s does not set s.Cmd or report an error on every path", exprString(c.Fun))
				}
				// any language gate around it lets the Bash-like variants through; a call under some other
				// condition does not count as the one every path makes
				always := true
				for i := len(stack) - 1; i >= 0; i-- {
					if is, ok := stack[i].(*ast.IfStmt); ok {
						isGate := false
						if cc2, ok := ast.Unparen(is.Cond).(*ast.CallExpr); ok && len(cc2.Args) == 1 {
							if se, ok := ast.Unparen(cc2.Fun).(*ast.SelectorExpr); ok && se.Sel.Name == "in" {
								isGate = true
								if !gated(stack[i:i+1], bashBits) {
									bad = "the case is not enabled for every Bash-like variant"
								}
							}
						}
						if !isGate {
							always = false
						}
					}
				}
				if always {
					unconditional++
				}
				return true
			})
		}
		if calls == 0 || unconditional == 0 {
			return "no call in the case hands s on unconditionally", false
		}
		// every path through the clause makes one of those calls or reports an error
		return bad, bad == ""
	}
	seenTok, seenWord := map[string]bool{}, map[string]bool{}
	why := ""
	ast.Inspect(a.fg.decls[gsp].Body, func(n ast.Node) bool {
		sw, ok := n.(*ast.SwitchStmt)
		if !ok || sw.Tag == nil {
			return true
		}
		tag := exprString(sw.Tag)
		if tag != "p.tok" && tag != "p.val" {
			return true
		}
		for _, c := range sw.Body.List {
			cc := c.(*ast.CaseClause)
			for _, e := range cc.List {
				name := ""
				if tag == "p.tok" {
					if id, ok := e.(*ast.Ident); ok {
						name = id.Name
					}
					if !contains(toks, name) {
						continue
					}
					// leftParen: both branches (anonymous function, subshell) must set the command
					if msg, ok := clauseOK(cc); !ok {
						why = fmt.Sprintf("gotStmtPipe's case %s: %s", name, msg)
					} else {
						seenTok[name] = true
					}
				} else {
					if tv, ok := info.Types[e]; ok && tv.Value != nil {
						name = strings.Trim(tv.Value.ExactString(), `"`)
					}
					if !contains(words, name) {
						continue
					}
					if msg, ok := clauseOK(cc); !ok {
						why = fmt.Sprintf("gotStmtPipe's case %q: %s", name, msg)
					} else {
						seenWord[name] = true
					}
				}
			}
		}
		return true
	})
	if why != "" {
		return why, false
	}
	for _, t := range toks {
		if !seenTok[t] {
			return fmt.Sprintf("isBashCompoundCommand lists the token %s, for which gotStmtPipe has no case that sets the command", t), false
		}
	}
	for _, w := range words {
		if !seenWord[w] {
			return fmt.Sprintf("isBashCompoundCommand lists the word %q, for which gotStmtPipe has no case that sets the command", w), false
		}
	}
	return fmt.Sprintf("under isBashCompoundCommand only: each of its %d tokens and %d words has a case in gotStmtPipe that, for the Bash-like variants coprocClause is confined to, calls a function which sets s.Cmd or reports an error on every path — gotStmtPipe then does not return nil", len(toks), len(words)), true
}

func contains(l []string, s string) bool {
	for _, x := range l {
		if x == s {
			return true
		}
	}
	return false
}

func constantUint(v constant.Value) (uint64, bool) {
	if v == nil || v.Kind() != constant.Int {
		return 0, false
	}
	return constant.Uint64Val(v)
}
