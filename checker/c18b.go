package main

import (
	"fmt"
	"sort"
	"go/ast"
	"go/constant"
	"strings"
)

// R18b: Regexp has a short-cut that returns the pattern itself as the regular expression when it holds no special
// character. What comes back is then interpreted by Go's regexp package, so "special" must include every byte that
// package gives a meaning to (the table of regexp.QuoteMeta: \.+*?()|[]{}^$ — frozen here from its documentation) as
// well as the pattern metacharacters. The set is read off the function: rune constants of case clauses and constant
// operands of strings.ContainsAny/IndexAny before the first return of the parameter itself.
const regexpSpecialBytes = `\.+*?()|[]{}^$`

func checkRegexpShortcut(p *Prog, r *Result, rule string) {
	pkg := p.Pkg("pattern")
	info := pkg.TypesInfo
	fd := p.FuncDecl("pattern", "Regexp")
	if fd == nil {
		r.Fatalf("pattern.Regexp not found")
		return
	}
	var patObj = info.Defs[fd.Type.Params.List[0].Names[0]]
	// the return of the parameter itself
	var shortcut *ast.ReturnStmt
	ast.Inspect(fd.Body, func(n ast.Node) bool {
		if rs, ok := n.(*ast.ReturnStmt); ok && shortcut == nil && len(rs.Results) > 0 {
			if id, ok := ast.Unparen(rs.Results[0]).(*ast.Ident); ok && info.ObjectOf(id) == patObj {
				shortcut = rs
			}
		}
		return true
	})
	if shortcut == nil {
		r.Notef("%s: Regexp has no short-cut returning the pattern itself", rule)
		r.OK(rule, "pattern.Regexp#no verbatim short-cut", fd.Pos(), "the pattern is never returned as a regular expression without translation")
		return
	}
	set := map[byte]bool{}
	ast.Inspect(fd.Body, func(n ast.Node) bool {
		if n == nil || n.Pos() > shortcut.Pos() {
			return true
		}
		switch x := n.(type) {
		case *ast.CaseClause:
			for _, e := range x.List {
				if tv, ok := info.Types[e]; ok && tv.Value != nil && tv.Value.Kind() == constant.Int {
					if v, ok := constant.Int64Val(tv.Value); ok && v < 128 {
						set[byte(v)] = true
					}
				}
			}
		case *ast.CallExpr:
			if fn := calleeOf(info, x); fn != nil && fn.Pkg() != nil && fn.Pkg().Path() == "strings" && (fn.Name() == "ContainsAny" || fn.Name() == "IndexAny") && len(x.Args) == 2 {
				if tv, ok := info.Types[x.Args[1]]; ok && tv.Value != nil && tv.Value.Kind() == constant.String {
					for _, b := range []byte(constant.StringVal(tv.Value)) {
						set[b] = true
					}
				}
			}
		}
		return true
	})
	missing := ""
	for _, b := range []byte(regexpSpecialBytes) {
		if !set[b] {
			missing += string(b)
		}
	}
	var have []string
	for b := range set {
		have = append(have, string(b))
	}
	sort.Strings(have)
	r.Check(missing == "", rule, "pattern.Regexp#short-cut set covers the regexp metacharacters", shortcut.Pos(),
		"the characters that prevent the verbatim short-cut include all of "+regexpSpecialBytes,
		fmt.Sprintf("the pattern is returned verbatim as a regular expression although it may contain %q, which the regexp package interprets (checked set: %q): QuoteMeta(\"a+b\") then matches \"ab\" but not \"a+b\"", missing, strings.Join(have, "")))
}
