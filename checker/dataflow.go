package main

import "go/ast"

// Forward dataflow over an FGraph. F is an immutable fact value.
type flowSpec[F any] struct {
	Init  F
	Join  func(a, b F) F
	Equal func(a, b F) bool
	Node  func(f F, n ast.Node) F
	Edge  func(f F, e *FEdge) F
}

type flowResult[F any] struct {
	g    *FGraph
	spec flowSpec[F]
	in   map[*FBlock]F
	has  map[*FBlock]bool
}

func runForward[F any](g *FGraph, spec flowSpec[F]) *flowResult[F] {
	res := &flowResult[F]{g: g, spec: spec, in: map[*FBlock]F{}, has: map[*FBlock]bool{}}
	res.in[g.Entry] = spec.Init
	res.has[g.Entry] = true
	work := []*FBlock{g.Entry}
	inWork := map[*FBlock]bool{g.Entry: true}
	for iter := 0; len(work) > 0 && iter < 200000; iter++ {
		b := work[0]
		work = work[1:]
		inWork[b] = false
		f := res.in[b]
		for _, n := range b.Nodes {
			f = spec.Node(f, n)
		}
		for _, e := range b.Succs {
			out := f
			if spec.Edge != nil {
				out = spec.Edge(f, e)
			}
			if !res.has[e.To] {
				res.in[e.To] = out
				res.has[e.To] = true
			} else {
				j := spec.Join(res.in[e.To], out)
				if spec.Equal(j, res.in[e.To]) {
					continue
				}
				res.in[e.To] = j
			}
			if !inWork[e.To] {
				inWork[e.To] = true
				work = append(work, e.To)
			}
		}
	}
	return res
}

// At returns the fact holding just before node index idx of block b.
func (r *flowResult[F]) At(b *FBlock, idx int) (F, bool) {
	var zero F
	if !r.has[b] {
		return zero, false
	}
	f := r.in[b]
	for _, n := range b.Nodes[:idx] {
		f = r.spec.Node(f, n)
	}
	return f, true
}

// Before returns the fact holding just before the graph node that contains n.
func (r *flowResult[F]) Before(n ast.Node) (F, bool) {
	b, i := r.g.BlockOf(n)
	if b == nil {
		var zero F
		return zero, false
	}
	return r.At(b, i)
}
