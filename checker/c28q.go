package main

import (
	"fmt"
	"go/ast"
	"go/token"
	"strings"

	"golang.org/x/tools/go/packages"
)

// R28q: the directory stack always holds the current directory — pushd's swap and popd index len-1 and len-2 on that
// belief (they test `len < 2`, not emptiness). Reset re-establishes it; at run time the stack is therefore only
// appended to, or shortened by one element under a test that it holds at least two. Any other store (a truncation to
// [:0] by a `dirs -c`) makes the next pushd -n index -1.
func checkDirStackNeverEmptied(p *Prog, r *Result, pkg *packages.Package, rule string) int {
	info := pkg.TypesInfo
	n := 0
	for _, fd := range p.AllFuncDecls("interp") {
		if fd.Body == nil || strings.HasSuffix(p.Position(fd.Pos()), "_test.go") {
			continue
		}
		switch fd.Name.Name {
		case "New", "Reset", "subshell", "Subshell":
			continue // configuration and copies: they build the stack, Reset appends the current directory
		}
		var g *FGraph
		seen := map[string]int{}
		ast.Inspect(fd.Body, func(m ast.Node) bool {
			as, ok := m.(*ast.AssignStmt)
			if !ok || len(as.Lhs) != len(as.Rhs) {
				return true
			}
			for i, l := range as.Lhs {
				fv := selectorField(info, l)
				if fv == nil || fv.Name() != "dirStack" {
					continue
				}
				n++
				rhs := ast.Unparen(as.Rhs[i])
				key := fmt.Sprintf("%s#%s = %s keeps the current directory on the stack", funcKey("interp", fd), exprString(l), exprString(rhs))
				seen[key]++
				if seen[key] > 1 {
					key += fmt.Sprintf("#%d", seen[key])
				}
				how := ""
				if c, ok := rhs.(*ast.CallExpr); ok && isBuiltinCall(info, c, "append") && len(c.Args) >= 2 && exprString(c.Args[0]) == exprString(l) {
					how = "appends"
				}
				if se, ok := rhs.(*ast.SliceExpr); ok && how == "" && se.Low == nil && se.High != nil && exprString(se.X) == exprString(l) {
					// x[:len(x)-1] under len(x) >= 2
					if be, ok := ast.Unparen(se.High).(*ast.BinaryExpr); ok && be.Op == token.SUB && exprString(be.Y) == "1" && exprString(be.X) == "len("+exprString(l)+")" {
						if g == nil {
							g = NewFGraph(info, fd.Body, nil)
						}
						blk := blockContaining(g, as)
						if blk != nil && underEdges(g, blk, func(e *FEdge) bool {
							if e.Cond == nil || e.Tag != nil {
								return false
							}
							c, ok := ast.Unparen(e.Cond).(*ast.BinaryExpr)
							if !ok || exprString(c.X) != "len("+exprString(l)+")" {
								return false
							}
							tv, has := info.Types[c.Y]
							if !has || tv.Value == nil {
								return false
							}
							v := tv.Value.ExactString()
							return (c.Op == token.LSS && !e.Pol && v == "2") || (c.Op == token.GEQ && e.Pol && v == "2") || (c.Op == token.GTR && e.Pol && v == "1") || (c.Op == token.LEQ && !e.Pol && v == "1")
						}) {
							how = "drops one element under a test that at least two are there"
						}
					}
				}
				r.Check(how != "", rule, key, as.Pos(), how,
					"the directory stack is stored at run time by something other than an append or a pop under `len >= 2`: if it can become empty, pushd and popd — which index len-1 and len-2 after testing only `len < 2` against their own needs — index -1")
			}
			return true
		})
	}
	return n
}

var _ *packages.Package
