package main

import (
	"fmt"
	"go/ast"
	"go/constant"
	"go/token"
	"go/types"
	"sort"
	"strings"

	"golang.org/x/tools/go/packages"
)

func init() {
	register(&Property{
		ID:  "C11",
		Run: runC11,
		Decided: "error recovery can only act on error paths: after every recoverError() that returns false, every path to the function's exit reports a parse error, so without recovery " +
			"reaching any recovery site means rejection, and accepted inputs parse step-for-step identically with recovery enabled (R11a); every language-set constant reaching a variant " +
			"test contains LangBash and LangBats together or neither, so Bash and Bats take the same branches (R11b); every construction site of a non-POSIX node, field or operator " +
			"is dominated by a gate that excludes LangPOSIX (R11c).",
		NotDecided:  "gating of operators inside arithmetic that the parser gates nowhere (e.g. ** and ^^); equality of the trees beyond taking the same branches.",
		Assumptions: []string{"errPass records the first error and makes the parse fail (read: it sets p.err and forces EOF)", "LangVariant tests only happen through in(), checkLang() or direct comparison (all three enumerated)"},
		Controls:    c11Controls,
	})
}

// ---------------------------------------------------------------------------
// mustError: functions of package syntax that call errPass on every path.

type funcGraphs struct {
	pkg    *packages.Package
	info   *types.Info
	decls  map[*types.Func]*ast.FuncDecl
	graphs map[*types.Func]*FGraph
}

func newFuncGraphs(pkg *packages.Package) *funcGraphs {
	fg := &funcGraphs{pkg: pkg, info: pkg.TypesInfo, decls: map[*types.Func]*ast.FuncDecl{}, graphs: map[*types.Func]*FGraph{}}
	for _, f := range pkg.Syntax {
		for _, d := range f.Decls {
			if fd, ok := d.(*ast.FuncDecl); ok && fd.Body != nil {
				if fo, ok := pkg.TypesInfo.Defs[fd.Name].(*types.Func); ok {
					fg.decls[fo] = fd
				}
			}
		}
	}
	return fg
}

func (fg *funcGraphs) graph(fo *types.Func) *FGraph {
	if g, ok := fg.graphs[fo]; ok {
		return g
	}
	fd := fg.decls[fo]
	if fd == nil {
		return nil
	}
	g := NewFGraph(fg.info, fd.Body, nil)
	fg.graphs[fo] = g
	return g
}

// nodeCallsAny reports whether graph node n (not descending into function
// literals, and not counting deferred or go calls) calls a function of set.
func nodeCallsAny(info *types.Info, n ast.Node, set map[*types.Func]bool) bool {
	switch n.(type) {
	case *ast.DeferStmt, *ast.GoStmt:
		return false
	}
	for _, c := range nodeCalls(n) {
		if fn := calleeOf(info, c); fn != nil && set[fn] {
			return true
		}
	}
	return false
}

func computeMustError(fg *funcGraphs, base *types.Func) map[*types.Func]bool {
	me := map[*types.Func]bool{base: true}
	for changed := true; changed; {
		changed = false
		for fo := range fg.decls {
			if me[fo] {
				continue
			}
			g := fg.graph(fo)
			ok, _ := g.MustPass(g.Entry, -1, g.Exit, func(n ast.Node) bool { return nodeCallsAny(fg.info, n, me) }, nil)
			// also the entry block's own nodes
			if !ok {
				continue
			}
			// a function with no path to Exit at all (always panics) is not an error reporter
			if !g.Reachable(g.Entry, nil)[g.Exit] {
				continue
			}
			me[fo] = true
			changed = true
		}
	}
	return me
}

// ---------------------------------------------------------------------------

func runC11(p *Prog, r *Result) {
	pkg := p.Pkg("syntax")
	if pkg == nil {
		r.Fatalf("package syntax not loaded")
		return
	}
	info := pkg.TypesInfo
	r.Rule("R11a", "after recoverError() returns false every path to the function's exit passes a call that always reports an error (mustError, computed)", 14)
	r.Rule("R11d", "the recovery limit is read only inside recoverError(): no other branch depends on RecoverErrors being enabled", 4)
	checkRecoveryGate(p, r, "R11d")
	r.Rule("R11e", "a function that reads one statement list of a compound command through followStmts reads all of them through it: the empty list stays an mksh/zsh construct in every branch", 6)
	checkStatementListsAgree(p, r, "R11e")
	r.Rule("R11b", "every LangVariant constant tested against the parser's variant contains LangBash and LangBats together or neither", 100)
	r.Rule("R11c", "construction sites of non-POSIX nodes, fields and operators are gated by a variant test excluding LangPOSIX", 80)

	fg := newFuncGraphs(pkg)
	errPass := lookupFunc(pkg, "Parser.errPass")
	recov := lookupFunc(pkg, "Parser.recoverError")
	checkLang := lookupFunc(pkg, "Parser.checkLang")
	inFn := lookupFunc(pkg, "LangVariant.in")
	if errPass == nil || recov == nil || checkLang == nil || inFn == nil {
		r.Fatalf("anchors Parser.errPass / recoverError / checkLang / LangVariant.in not all found")
		return
	}
	me := computeMustError(fg, errPass)
	var meNames []string
	for fo := range me {
		meNames = append(meNames, fo.Name())
	}
	sort.Strings(meNames)
	r.Notef("R11a: mustError functions (computed): %s", strings.Join(meNames, ", "))
	if me[checkLang] {
		r.Fatalf("checkLang was classified as always-erroring; the mustError computation is wrong")
		return
	}

	// ---- R11a
	var fos []*types.Func
	for fo := range fg.decls {
		fos = append(fos, fo)
	}
	sort.Slice(fos, func(i, j int) bool { return fos[i].Pos() < fos[j].Pos() })
	for _, fo := range fos {
		if fo == recov {
			continue
		}
		fd := fg.decls[fo]
		var calls []*ast.CallExpr
		inspectNoLit(fd.Body, func(n ast.Node) bool {
			if c, ok := n.(*ast.CallExpr); ok && calleeOf(info, c) == recov {
				calls = append(calls, c)
			}
			return true
		})
		if len(calls) == 0 {
			continue
		}
		g := fg.graph(fo)
		for _, c := range calls {
			key := funcObjKey(fo) + "#recoverError"
			blk, _ := g.BlockOf(c)
			var falseEdge *FEdge
			if blk != nil {
				for _, e := range blk.Succs {
					if e.Cond != nil && ast.Unparen(e.Cond) == ast.Expr(c) && !e.Pol {
						falseEdge = e
					}
				}
			}
			if falseEdge == nil {
				r.Undecided("R11a", key, c.Pos(), "recoverError() is not used directly as a branch condition; the path taken when it returns false cannot be identified")
				continue
			}
			ok, _ := g.MustPass(falseEdge.To, -1, g.Exit, func(n ast.Node) bool { return nodeCallsAny(info, n, me) }, nil)
			r.Check(ok, "R11a", key, c.Pos(), "every path from the false edge to the exit reports an error",
				"when recoverError() returns false (recovery disabled) some path returns without reporting an error: the input is then accepted, while with RecoverErrors the same input takes the recovery branch and parses differently")
		}
	}
	// function literals must not call recoverError (outside our graphs)
	for _, fo := range fos {
		ast.Inspect(fg.decls[fo].Body, func(n ast.Node) bool {
			if fl, ok := n.(*ast.FuncLit); ok {
				ast.Inspect(fl.Body, func(m ast.Node) bool {
					if c, ok := m.(*ast.CallExpr); ok && calleeOf(info, c) == recov {
						r.Undecided("R11a", funcObjKey(fo)+"#recoverError in func literal", c.Pos(), "recoverError called inside a function literal")
					}
					return true
				})
				return false
			}
			return true
		})
	}
	// recoverError itself: no effect when recoverErrorsMax == 0
	checkRecoverErrorBody(p, r, info, fg.decls[recov])

	// ---- R11b
	bash, bats := langConst(pkg.Types, "LangBash"), langConst(pkg.Types, "LangBats")
	langT := lookupType(pkg, "LangVariant")
	exempt := map[string]bool{"Variant": true, "String": true, "Set": true, "in": true, "count": true, "index": true, "bits": true}
	checkSet := func(key string, pos token.Pos, v uint64, what string) {
		hasBash, hasBats := v&bash != 0, v&bats != 0
		r.Check(hasBash == hasBats, "R11b", key, pos, fmt.Sprintf("%s: set %#b treats Bash and Bats alike", what, v),
			fmt.Sprintf("%s tests the set %#b, which contains exactly one of LangBash/LangBats: a program takes different branches as Bash and as Bats", what, v))
	}
	for _, fo := range fos {
		fd := fg.decls[fo]
		fkey := funcObjKey(fo)
		if fo.Type().(*types.Signature).Recv() != nil && typeName(fo.Type().(*types.Signature).Recv().Type()) == "LangVariant" {
			continue
		}
		if exempt[fo.Name()] && fo.Type().(*types.Signature).Recv() == nil {
			continue
		}
		ast.Inspect(fd.Body, func(n ast.Node) bool {
			switch x := n.(type) {
			case *ast.CallExpr:
				callee := calleeOf(info, x)
				switch callee {
				case inFn:
					if len(x.Args) != 1 {
						return true
					}
					tv := info.Types[x.Args[0]]
					// receiver constant (e.g. langBashLike.in(langSet)) is a set-inclusion test between sets, not a variant test
					if se, ok := ast.Unparen(x.Fun).(*ast.SelectorExpr); ok {
						if rtv := info.Types[se.X]; rtv.Value != nil {
							return true
						}
					}
					if tv.Value == nil {
						if fo != checkLang {
							// a set that comes in as a parameter is judged where it is written: at every call
							if vals, poss, ok := paramSetsAtCalls(info, fg, fo, x.Args[0]); ok {
								for i, v := range vals {
									checkSet(fmt.Sprintf("%s#in(%s) called with %#b", fkey, shortExpr(x.Args[0]), v), poss[i], v, "lang.in, through a parameter,")
								}
								return true
							}
							r.Undecided("R11b", fkey+"#in("+shortExpr(x.Args[0])+")", x.Pos(), "variant set is not a constant")
						}
						return true
					}
					v, _ := constant.Uint64Val(tv.Value)
					checkSet(fkey+"#in("+shortExpr(x.Args[0])+")", x.Pos(), v, "lang.in")
				case checkLang:
					if len(x.Args) < 2 {
						return true
					}
					tv := info.Types[x.Args[1]]
					if tv.Value == nil {
						r.Undecided("R11b", fkey+"#checkLang("+shortExpr(x.Args[1])+")", x.Pos(), "variant set is not a constant")
						return true
					}
					v, _ := constant.Uint64Val(tv.Value)
					checkSet(fkey+"#checkLang("+shortExpr(x.Args[1])+")", x.Pos(), v, "checkLang")
				}
			case *ast.BinaryExpr:
				if x.Op != token.EQL && x.Op != token.NEQ {
					return true
				}
				tx, ty := info.Types[x.X], info.Types[x.Y]
				if tx.Type == nil || ty.Type == nil || namedOf(tx.Type) != langT || namedOf(ty.Type) != langT {
					return true
				}
				c := tx
				if c.Value == nil {
					c = ty
				}
				if c.Value == nil {
					r.Undecided("R11b", fkey+"#"+shortExpr(x), x.Pos(), "comparison of two non-constant variants")
					return true
				}
				v, _ := constant.Uint64Val(c.Value)
				checkSet(fkey+"#"+shortExpr(x), x.Pos(), v, "direct comparison")
			case *ast.SwitchStmt:
				if x.Tag == nil {
					return true
				}
				if t := info.TypeOf(x.Tag); t == nil || namedOf(t) != langT {
					return true
				}
				for _, s := range x.Body.List {
					cc := s.(*ast.CaseClause)
					var v uint64
					for _, e := range cc.List {
						if tv := info.Types[e]; tv.Value != nil {
							u, _ := constant.Uint64Val(tv.Value)
							v |= u
						}
					}
					if cc.List != nil {
						checkSet(fkey+"#switch case "+shortExpr(cc.List[0]), cc.Pos(), v, "switch on the variant")
					}
				}
			}
			return true
		})
	}

	// ---- R11c
	runR11c(p, r, fg, me)
}

// checkRecoverErrorBody: recoverError returns true only under
// recoveredErrors < recoverErrorsMax and has no other effect than the counter.
func checkRecoverErrorBody(p *Prog, r *Result, info *types.Info, fd *ast.FuncDecl) {
	if fd == nil {
		return
	}
	key := "syntax.(Parser).recoverError#no effect when disabled"
	// every `return true` must be inside an if whose condition compares recoveredErrors < recoverErrorsMax,
	// and every store must be inside that if too.
	ok := true
	why := ""
	var file *ast.File
	for _, f := range p.Pkg("syntax").Syntax {
		if f.Pos() <= fd.Pos() && fd.End() <= f.End() {
			file = f
		}
	}
	guarded := func(n ast.Node) bool {
		for _, c := range enclosingConds(file, n) {
			if c.Expr == nil || !c.Pos {
				continue
			}
			for _, a := range conjuncts(c.Expr) {
				if be, ok := ast.Unparen(a).(*ast.BinaryExpr); ok && be.Op == token.LSS {
					fx, fy := selectorField(info, be.X), selectorField(info, be.Y)
					if fx != nil && fy != nil && fx.Name() == "recoveredErrors" && fy.Name() == "recoverErrorsMax" {
						return true
					}
				}
			}
		}
		return false
	}
	ast.Inspect(fd.Body, func(n ast.Node) bool {
		switch x := n.(type) {
		case *ast.ReturnStmt:
			if len(x.Results) == 1 {
				if tv := info.Types[x.Results[0]]; tv.Value != nil && tv.Value.Kind() == constant.Bool && constant.BoolVal(tv.Value) && !guarded(x) {
					ok, why = false, "returns true outside the recoveredErrors < recoverErrorsMax test"
				} else if tv.Value == nil {
					ok, why = false, "returns a non-constant"
				}
			}
		case *ast.AssignStmt, *ast.IncDecStmt:
			if !guarded(x) {
				ok, why = false, "modifies parser state outside the recoveredErrors < recoverErrorsMax test"
			}
		case *ast.CallExpr:
			ok, why = false, "calls another function"
		}
		return true
	})
	r.Check(ok, "R11a", key, fd.Pos(), "returns true and counts only under recoveredErrors < recoverErrorsMax (false for the default limit 0)", "recoverError "+why+": it can act although recovery is disabled")
}

var c11Controls = []Control{
	{Name: "else-branch-read-without-the-empty-list-check", Rule: "R11e", WantKey: "ifClause#every statement list of the construct", File: "syntax/parser.go",
		Mutate: ctlReplaceAnywhere("els.Then, els.ThenLast = p.followStmts(\"else\", els.Position, \"fi\")", "els.Then, els.ThenLast = p.stmtList(\"fi\")")},
	{Name: "branch-on-recovery-enabled", Rule: "R11d", WantKey: "reads recoverErrorsMax", File: "syntax/lexer.go",
		Mutate: ctlReplaceAnywhere("\t\t\tif p.parsingDoc {\n\t\t\t\tif r == runeEOF {", "\t\t\tif p.parsingDoc || p.recoverErrorsMax > 0 {\n\t\t\t\tif r == runeEOF {")},
	{Name: "followRsrv-drop-error", Rule: "R11a", WantKey: "followRsrv#recoverError", File: "syntax/parser.go",
		Mutate: ctlReplace("Parser.followRsrv", "p.followErr(lpos, left, val)", "_ = left", 0)},
	{Name: "followStmts-recover-before-empty-list", Rule: "R11a", WantKey: "followStmts#recoverError", File: "syntax/parser.go",
		Mutate: ctlReplaceAnywhere("\t\tif p.lang.in(LangZsh | LangMirBSDKorn) {\n\t\t\treturn nil, last // allow an empty list, which may still hold comments\n\t\t}\n\t\tif p.recoverError() {\n\t\t\treturn []*Stmt{{Position: recoveredPos}}, last\n\t\t}\n",
			"\t\tif p.recoverError() {\n\t\t\treturn []*Stmt{{Position: recoveredPos}}, last\n\t\t}\n\t\tif p.lang.in(LangZsh | LangMirBSDKorn) {\n\t\t\treturn nil, last // allow an empty list, which may still hold comments\n\t\t}\n")},
	{Name: "dqToken-bash-only", Rule: "R11b", WantKey: "dqToken#in(LangBash)", File: "syntax/lexer.go",
		Mutate: ctlReplace("Parser.dqToken", "p.lang.in(langBashLike)", "p.lang.in(LangBash)", 0)},
	{Name: "checkLang-bash-only", Rule: "R11b", WantKey: "checkLang(LangBash", File: "syntax/parser.go",
		Mutate: ctlReplace("Parser.paramExp", "p.checkLang(p.pos, langBashLike, \"this expansion operator\")", "p.checkLang(p.pos, LangBash, \"this expansion operator\")", 0)},
	{Name: "testclause-ungated", Rule: "R11c", WantKey: "new TestClause", File: "syntax/parser.go",
		Mutate: ctlReplace("Parser.gotStmtPipe", "if p.lang.in(langBashLike | LangMirBSDKorn | LangZsh) {\n\t\t\t\tp.testClause(s)\n\t\t\t}", "p.testClause(s)", 0)},
	{Name: "case-modification-gate-forgets-doubled-operators", Rule: "R11c", WantKey: "ParExpOperator(tok)=UpperAll", File: "syntax/parser.go",
		Mutate: ctlReplace("Parser.paramExp", "case caret, dblCaret, comma, dblComma: // upper/lower case\n\t\tp.checkLang(p.pos, langBashLike, \"this expansion operator\")\n\t\tpe.Exp = p.paramExpExp()",
			"case caret, comma: // upper/lower case\n\t\tp.checkLang(p.pos, langBashLike, \"this expansion operator\")\n\t\tpe.Exp = p.paramExpExp()\n\tcase dblCaret, dblComma:\n\t\tpe.Exp = p.paramExpExp()", 0)},
	{Name: "herestring-gate-dropped", Rule: "R11c", WantKey: "RedirOperator(tok)=WordHdoc", File: "syntax/parser.go",
		Mutate: ctlReplace("Parser.doRedirect", "p.checkLang(r.OpPos, langBashLike|LangMirBSDKorn|LangZsh, \"herestrings\")", "_ = r.OpPos", 0)},
	{Name: "dollar-sglquote-lexed-everywhere", Rule: "R11c", WantKey: "SglQuoted.Dollar", File: "syntax/lexer.go",
		Mutate: ctlReplaceAnywhere("\t\t\tif !p.lang.in(langBashLike | LangMirBSDKorn | LangZsh) {\n\t\t\t\tbreak\n\t\t\t}\n\t\t\tp.rune()\n\t\t\treturn dollSglQuote", "\t\t\tp.rune()\n\t\t\treturn dollSglQuote")},
	{Name: "unsigned-before-checklang-removed", Rule: "R11c", WantKey: "ArithmExp.Unsigned", File: "syntax/parser.go",
		Mutate: ctlReplace("Parser.wordPart", "p.checkLang(ar.Pos(), LangMirBSDKorn, \"unsigned expressions\")", "_ = ar", 0)},
}

// paramSetsAtCalls: e is a parameter of fo; the constant passed for it at each call of fo in the package (deduplicated).
func paramSetsAtCalls(info *types.Info, fg *funcGraphs, fo *types.Func, e ast.Expr) ([]uint64, []token.Pos, bool) {
	id, ok := ast.Unparen(e).(*ast.Ident)
	if !ok {
		return nil, nil, false
	}
	obj := info.ObjectOf(id)
	fd := fg.decls[fo]
	idx, k := -1, 0
	if fd.Type.Params != nil {
		for _, f := range fd.Type.Params.List {
			for _, nm := range f.Names {
				if info.ObjectOf(nm) == obj {
					idx = k
				}
				k++
			}
		}
	}
	if idx < 0 {
		return nil, nil, false
	}
	var vals []uint64
	var poss []token.Pos
	seen := map[uint64]bool{}
	all := true
	for _, cfd := range fg.decls {
		ast.Inspect(cfd.Body, func(n ast.Node) bool {
			c, ok := n.(*ast.CallExpr)
			if !ok || calleeOf(info, c) != fo || idx >= len(c.Args) {
				return true
			}
			tv := info.Types[c.Args[idx]]
			if tv.Value == nil {
				all = false
				return true
			}
			v, _ := constant.Uint64Val(tv.Value)
			if !seen[v] {
				seen[v] = true
				vals = append(vals, v)
				poss = append(poss, c.Pos())
			}
			return true
		})
	}
	if !all || len(vals) == 0 {
		return nil, nil, false
	}
	// stable order
	for i := 0; i < len(vals); i++ {
		for j := i + 1; j < len(vals); j++ {
			if vals[j] < vals[i] {
				vals[i], vals[j] = vals[j], vals[i]
				poss[i], poss[j] = poss[j], poss[i]
			}
		}
	}
	return vals, poss, true
}
