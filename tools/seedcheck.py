#!/usr/bin/env python3
"""Validate one seeded change and run the property's check against it.

Usage: seedcheck.py <Cxx> <n> [--src /tmp/seed-out] [--no-suite] [--keep]

Works in a scratch worktree of /repo (never in /repo itself):
  1. applies <src>/<Cxx>/<n>/patch.diff, builds
  2. runs the demonstration with the patch (must fail) and without (must pass)
  3. runs the existing suite with the patch (must match BASELINE.json)
  4. runs `shcheck <Cxx>` (and any extra properties given with --also) against the patched worktree
Writes /verif/seeded/<Cxx>-<n>/{patch.diff, demo files, meta.json}.
"""
import json, os, re, shutil, subprocess, sys, glob, time

args = [a for a in sys.argv[1:] if not a.startswith("--")]
pid, n = args[0], args[1]
opt = {a.split("=")[0]: (a.split("=", 1)[1] if "=" in a else True) for a in sys.argv[1:] if a.startswith("--")}
src = opt.get("--src", "/tmp/seed-out")
d = os.path.join(src, pid, n)
WT = opt.get("--wt", "/tmp/wt/verify-" + pid)
env = dict(os.environ, GOFLAGS="-mod=mod", GOPROXY="off")
env.pop("GOSUMDB", None); env.pop("GOTOOLCHAIN", None)

def sh(cmd, cwd=None, timeout=1800):
    p = subprocess.run(cmd, shell=True, cwd=cwd, env=env, stdout=subprocess.PIPE, stderr=subprocess.STDOUT, text=True, errors="replace", timeout=timeout)
    return p.returncode, p.stdout

head = sh("git -C /repo rev-parse HEAD")[1].strip()
if not os.path.isdir(WT):
    rc, out = sh(f"git -C /repo worktree add -q --detach {WT} {head}")
    if rc: sys.exit("worktree: " + out)
sh(f"git -C {WT} checkout -q --detach {head} && git -C {WT} checkout -- . && git -C {WT} clean -fdq")

patch = os.path.join(d, "patch.diff")
meta = {"property": pid, "variant": n, "repo_head": head, "source": d}
readme = os.path.join(d, "README.md")
if os.path.exists(readme):
    meta["description"] = open(readme).read()[:3000]

rc, out = sh(f"git apply --check {patch}", WT)
mode = "git apply"
if rc:
    rc, out = sh(f"git apply -3 --check {patch}", WT)
    mode = "git apply -3"
if rc:
    meta["status"] = "patch does not apply to current /repo HEAD: " + out[-400:]
    print(json.dumps(meta, indent=1)); sys.exit(3)

def apply():
    r = sh(f"{mode} {patch}", WT)
    sh("git add -A", WT)   # staged, so that cleaning the demo files away keeps files the patch adds
    return r
def unapply(): return sh(f"git reset -q --hard && git clean -fdq", WT)

# demo files
demos = [f for f in glob.glob(os.path.join(d, "*")) if os.path.basename(f) not in ("patch.diff", "README.md") and os.path.isfile(f)]
demos += [f for f in glob.glob(os.path.join(d, "demo", "*")) if os.path.isfile(f)]
def demo_dir(path):
    txt = open(path, errors="replace").read()
    headtxt = "\n".join(txt.splitlines()[:40])
    m = re.search(r"(syntax/typedjson|cmd/shfmt|cmd/gosh|moreinterp/coreutils|syntax|interp|expand|pattern|shell|fileutil|internal)\b", headtxt)
    pk = re.search(r"^package (\w+)", txt, re.M).group(1)
    if m: return m.group(1), pk, txt
    guess = pk.replace("_test", "")
    return {"main": "cmd/shfmt"}.get(guess, guess), pk, txt

placed = []
def place():
    for f in demos:
        if not f.endswith(".go"): continue
        rel, pk, txt = demo_dir(f)
        if pk == "main" and not re.search(r"^func Test\w+\(", txt, re.M):
            dst = os.path.join(WT, "zz_demo_main")
            os.makedirs(dst, exist_ok=True)
            shutil.copy(f, os.path.join(dst, "main.go"))
            placed.append(("main", "zz_demo_main", None))
        else:
            name = "zz_" + os.path.basename(f)
            if not name.endswith("_test.go"): name = name[:-3] + "_test.go"
            shutil.copy(f, os.path.join(WT, rel, name))
            tests = re.findall(r"^func (Test\w+)\(", txt, re.M)
            placed.append(("test", rel, tests))
def unplace():
    sh("git clean -fdq", WT)

def run_demo():
    ok = True; log = ""
    for kind, rel, tests in placed:
        if kind == "main":
            rc, out = sh("go run ./zz_demo_main", WT, 600)
        else:
            pat = "^(" + "|".join(tests) + ")$" if tests else "."
            rc, out = sh(f"go test -vet=off -count=1 -timeout 300s -run '{pat}' ./{rel}", WT, 900)
        log += out[-1500:]
        if rc: ok = False
    return ok, log

apply()
# the patch as it applies to the current HEAD (it may have needed a 3-way merge)
rebased = sh("git diff --cached", WT)[1]
rc, out = sh("go build ./...", WT)
meta["builds"] = rc == 0
if rc:
    meta["status"] = "does not build: " + out[-500:]
    unapply(); print(json.dumps(meta, indent=1)); sys.exit(3)
place()
ok_with, log_with = run_demo()
meta["demo_with_patch"] = "passes (BAD)" if ok_with else "fails (expected)"
meta["demo_with_patch_log"] = log_with[-1200:]
unplace()

if "--no-suite" in opt:
    # keep what an earlier full run recorded for the same patch text
    try:
        old = json.load(open(f"/verif/seeded/{pid}-{n}/meta.json"))
        if open(f"/verif/seeded/{pid}-{n}/patch.diff").read() == open(patch).read():
            for k in ("suite_with_patch", "suite_ok", "suite_missing"):
                if k in old: meta[k] = old[k]
    except Exception:
        pass
else:
    rc, out = sh(f"python3 /verif/tools/baseline.py {WT} --retry", None, 3600)
    meta["suite_with_patch"] = out.strip().splitlines()[0] if out.strip() else "?"
    meta["suite_ok"] = rc == 0
    if rc: meta["suite_missing"] = out.strip().splitlines()[1:12]

# checker against the patched worktree
checks = [pid] + [x for x in str(opt.get("--also", "")).split(",") if x]
meta["checker"] = {}
for c in checks:
    rc, out = sh(f"/verif/bin/shcheck {c} --repo {WT} --no-evidence", "/verif", 900)
    fails = [l for l in out.splitlines() if " FAIL " in l or l.startswith("VIOLATION")]
    meta["checker"][c] = {"exit": rc, "detected": rc == 1, "reports": [l[:400] for l in fails[:12]]}

unapply()
place()
ok_without, log_without = run_demo()
meta["demo_without_patch"] = "passes (expected)" if ok_without else "FAILS (BAD)"
if not ok_without: meta["demo_without_patch_log"] = log_without[-1200:]
unplace()

valid = meta["builds"] and (not ok_with) and ok_without and meta.get("suite_ok", True)
meta["valid"] = valid
meta["ran"] = [f"{mode} patch.diff in a scratch worktree at {head[:7]}", "go build ./...", "demonstration with and without the patch",
               "python3 /verif/tools/baseline.py <worktree> --retry", "/verif/bin/shcheck " + pid + " --repo <worktree>"]
out_dir = f"/verif/seeded/{pid}-{n}"
if valid or "--keep" in opt:
    os.makedirs(out_dir, exist_ok=True)
    open(os.path.join(out_dir, "patch.diff"), "w").write(rebased if mode != "git apply" and rebased.strip() else open(patch).read())
    for f in demos: shutil.copy(f, os.path.join(out_dir, os.path.basename(f)))
    json.dump(meta, open(os.path.join(out_dir, "meta.json"), "w"), indent=1)
det = {c: v["detected"] for c, v in meta["checker"].items()}
print(f"SEED {pid}-{n}: valid={valid} demo_with={meta['demo_with_patch']} demo_without={meta['demo_without_patch']} suite_ok={meta.get('suite_ok')} detected={det}")
for c, v in meta["checker"].items():
    for l in v["reports"][:4]: print("   ", l[:300])
