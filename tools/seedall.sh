#!/bin/sh
# Usage: seedall.sh [extra seedcheck args]  -- runs seedcheck for every /tmp/seed-out/<id>/<n>
for d in /tmp/seed-out/C*/[0-9]; do
  id=$(basename $(dirname $d)); n=$(basename $d)
  [ -f $d/patch.diff ] || continue
  python3 /verif/tools/seedcheck.py $id $n "$@" 2>&1 | grep -E "^SEED|^    " 
done
