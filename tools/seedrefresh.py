#!/usr/bin/env python3
"""Re-run the static checks against every kept seeded change and record the outcome.

Usage: seedrefresh.py [Cxx-n ...] [--also=Cyy,Czz]

For each /verif/seeded/<id>-<n>/ : takes a scratch worktree of /repo at HEAD (outside /repo
and /verif), applies patch.diff (rebasing it from the commit it was made at when it no
longer applies verbatim), runs `shcheck <id>` (plus the properties listed in meta.json
"also_detected_by" and --also) with --repo pointing at the worktree, and rewrites the
"checker" entry of meta.json. Nothing is executed from the patched tree; /repo itself is
never modified. Prints one line per seed and a summary table.
"""
import json, os, subprocess, sys, glob

args = [a for a in sys.argv[1:] if not a.startswith("--")]
opt = {a.split("=")[0]: (a.split("=", 1)[1] if "=" in a else True) for a in sys.argv[1:] if a.startswith("--")}
also_all = [x for x in str(opt.get("--also", "")).split(",") if x]
WT = "/tmp/wt/refresh"
env = dict(os.environ, GOFLAGS="-mod=mod", GOPROXY="off")
env.pop("GOSUMDB", None); env.pop("GOTOOLCHAIN", None)

def sh(cmd, cwd=None, timeout=1800):
    p = subprocess.run(cmd, shell=True, cwd=cwd, env=env, stdout=subprocess.PIPE, stderr=subprocess.STDOUT, text=True, errors="replace", timeout=timeout)
    return p.returncode, p.stdout

head = sh("git -C /repo rev-parse HEAD")[1].strip()
if not os.path.isdir(WT):
    rc, out = sh(f"git -C /repo worktree add -q --detach {WT} {head}")
    if rc: sys.exit("worktree: " + out)

def reset(commit):
    sh(f"git reset -q --hard && git clean -fdq && git checkout -q --detach {commit}", WT)

dirs = sorted(glob.glob("/verif/seeded/C*-*"))
if args:
    dirs = [d for d in dirs if os.path.basename(d) in args]
rows = []
for d in dirs:
    name = os.path.basename(d)
    pid = name.split("-")[0]
    mpath = os.path.join(d, "meta.json")
    meta = json.load(open(mpath))
    patch = os.path.join(d, "patch.diff")
    reset(head)
    rc, out = sh(f"git apply --check {patch}", WT)
    if rc == 0:
        sh(f"git apply {patch} && git add -A", WT)
    else:
        base = meta.get("repo_head", "")
        reset(base)
        rc1, out1 = sh(f"git apply {patch} && git add -A && git -c user.email=a@b -c user.name=seed commit -qm seed", WT)
        c = sh("git rev-parse HEAD", WT)[1].strip()
        reset(head)
        rc2, out2 = sh(f"git cherry-pick -n {c}", WT)
        if rc1 or rc2:
            print(f"{name}: patch no longer applies to HEAD {head[:7]} (made at {base[:7]}): {(out1 + out2)[-300:]}")
            rows.append((name, "patch-stale", ""))
            reset(head)
            continue
        newpatch = sh("git diff --cached", WT)[1]
        open(patch, "w").write(newpatch)
        meta["rebased_from"] = base
    rcb, outb = sh("go build ./...", WT)
    if rcb:
        print(f"{name}: does not build at HEAD: {outb[-300:]}")
        rows.append((name, "no-build", ""))
        reset(head)
        continue
    prev = meta.get("also")
    if prev is None and isinstance(meta.get("checker"), dict):
        prev = [c for c in meta["checker"] if c != pid]  # seedcheck --also records them only here
    checks = [pid] + [c for c in (prev or []) if c != pid] + [c for c in also_all if c != pid]
    meta["checker"] = {}
    det = []
    for c in dict.fromkeys(checks):
        rc, out = sh(f"/verif/bin/shcheck {c} --repo {WT} --no-evidence", "/verif", 900)
        fails = [l for l in out.splitlines() if " FAIL " in l]
        meta["checker"][c] = {"exit": rc, "detected": rc == 1, "reports": [l[:400] for l in fails[:8]]}
        if rc == 1:
            det.append(c)
    meta["repo_head"] = head
    meta["also"] = [c for c in dict.fromkeys(checks) if c != pid]
    json.dump(meta, open(mpath, "w"), indent=1)
    first = ""
    for c in det:
        if meta["checker"][c]["reports"]:
            first = meta["checker"][c]["reports"][0]
            break
    rows.append((name, ",".join(det) if det else "MISSED", first[:160]))
    print(f"{name}: {'detected by ' + ','.join(det) if det else 'MISSED'}")
    reset(head)
sh(f"git -C /repo worktree remove --force {WT}")
print()
for r in rows:
    print("%-8s %-14s %s" % r)
