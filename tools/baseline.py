#!/usr/bin/env python3
"""Run the repository's own test suite (no build tags) and compare with BASELINE.json.
Usage: baseline.py [repo_dir] [--retry]   exit 0 iff every stable_pass test passed.
With --retry, top-level tests that have missing sub-tests are re-run alone (the
timing-based tests flake when the machine is loaded)."""
import json, os, subprocess, sys
args = [a for a in sys.argv[1:] if not a.startswith("--")]
retry = "--retry" in sys.argv
repo = args[0] if args else "/repo"
base = json.load(open("/root/.vp/BASELINE.json"))
want = set(base["stable_pass"])
env = dict(os.environ, GOFLAGS="-mod=mod", GOPROXY="off")
env.pop("GOSUMDB", None)
env.pop("GOTOOLCHAIN", None)
passed, failed = set(), set()

def run(mod, extra):
    d = os.path.join(repo, mod)
    p = subprocess.run(["go", "test", "-json", "-vet=off", "-count=1", "-timeout", "25m"] + extra,
                       cwd=d, env=env, stdout=subprocess.PIPE, stderr=subprocess.STDOUT, text=True)
    for line in p.stdout.splitlines():
        try:
            ev = json.loads(line)
        except Exception:
            continue
        if ev.get("Test") and ev.get("Action") in ("pass", "fail"):
            name = ev["Package"] + "::" + ev["Test"]
            if ev["Action"] == "pass":
                passed.add(name)
                failed.discard(name)
            else:
                if name not in passed:
                    failed.add(name)

mods = {"mvdan.cc/sh/v3": ".", "mvdan.cc/sh/moreinterp": "moreinterp"}
for mod in (".", "moreinterp"):
    if os.path.exists(os.path.join(repo, mod, "go.mod")):
        run(mod, ["./..."])
missing = sorted(want - passed)
if missing and retry:
    tops = {}
    for m in missing:
        pkg, test = m.split("::", 1)
        tops.setdefault(pkg, set()).add(test.split("/")[0])
    for pkg, tests in tops.items():
        mod = "moreinterp" if pkg.startswith("mvdan.cc/sh/moreinterp") else "."
        rel = "./" + pkg.split("/", 3)[3] if pkg.count("/") >= 3 else "."
        for attempt in range(2):
            run(mod, ["-p", "1", "-parallel", "2", "-run", "^(" + "|".join(sorted(tests)) + ")$", rel])
            if not (want - passed):
                break
    missing = sorted(want - passed)
print(f"baseline: {len(want)} expected, {len(want & passed)} passed, {len(missing)} missing, {len(failed)} failed overall")
for m in missing[:40]:
    print("  MISSING", m)
sys.exit(1 if missing else 0)
