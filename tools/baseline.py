#!/usr/bin/env python3
"""Run the repository's own test suite (no build tags) and compare with BASELINE.json.
Usage: baseline.py [repo_dir]   exit 0 iff every stable_pass test passed."""
import json, os, subprocess, sys
repo = sys.argv[1] if len(sys.argv) > 1 else "/repo"
base = json.load(open("/root/.vp/BASELINE.json"))
want = set(base["stable_pass"])
env = dict(os.environ, GOFLAGS="-mod=mod", GOPROXY="off")
env.pop("GOSUMDB", None)
env.pop("GOTOOLCHAIN", None)
passed, failed = set(), set()
for mod in (".", "moreinterp"):
    d = os.path.join(repo, mod)
    if not os.path.exists(os.path.join(d, "go.mod")):
        continue
    p = subprocess.run(["go", "test", "-json", "-vet=off", "-count=1", "-timeout", "25m", "./..."],
                       cwd=d, env=env, stdout=subprocess.PIPE, stderr=subprocess.STDOUT, text=True)
    for line in p.stdout.splitlines():
        try:
            ev = json.loads(line)
        except Exception:
            continue
        if ev.get("Test") and ev.get("Action") in ("pass", "fail"):
            name = ev["Package"] + "::" + ev["Test"]
            (passed if ev["Action"] == "pass" else failed).add(name)
missing = sorted(want - passed)
newfail = sorted(f for f in failed if f in want)
print(f"baseline: {len(want)} expected, {len(want & passed)} passed, {len(missing)} missing, {len(failed)} failed overall")
for m in missing[:40]:
    print("  MISSING", m)
sys.exit(1 if missing else 0)
