#!/bin/sh
# Runs every registered quick check against /repo; prints only failures. Run after every change to /repo or the checker.
cd /verif && ./build.sh >/dev/null || exit 2
rc=0
for id in $(jq -r '.checks[].property_id' MANIFEST.json); do
  out=$(./bin/shcheck $id --no-evidence 2>&1)
  case "$(echo "$out" | tail -1)" in *" OK:"*) ;; *) rc=1; echo "$out" | grep 'FAIL\|VIOLATION' | cut -c1-240;; esac
done
[ $rc -eq 0 ] && echo "all quick checks pass"
exit $rc
