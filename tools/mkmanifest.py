#!/usr/bin/env python3
"""Regenerates /verif/MANIFEST.json from the tables below and validates it."""
import json, os, sys
V = "/verif"
ALL = ["C%02d" % i for i in range(1, 37)]

# id -> (design section, technique, level text, level note)
CLAIMED = {
 "C27": ("§2 C27", "SSA provenance (ownership) analysis: backward origin walk through phi/slice/append/field/extract with reaching stores for local structs, captured-variable cells, return summaries and writes-through summaries to a fixpoint; AST checks of the overlay direction",
  "Decides that no code path of interp/expand/internal writes through variable storage it shares with another shell: every element store, map update, delete, clear, copy, in-place slices/sort call and append on a variable's list, indexes or map, or on the positional parameters, must act on storage created in the same activation; handing such storage to a callee that stores through its parameter is judged at the call site. Also that subshell() gives the copy fresh maps/slices/environment except a named table of fields shared by design, that background copies copy every variable, and that overlays write to their parent only in function scope. The analysis found the in-place array append on the pinned tree (repaired by a fix: commit). Runs on six build configurations in the thorough tier.",
  "Sound relative to: no reflection/unsafe in these packages (checked); storage returned by Environ.Get/lookupVar/Resolve or received as a parameter is treated as shared, clones/makes/literals as owned; stdlib aliasing and mutating helpers come from an explicit table. Does not decide isolation of cd/options/traps beyond by-value copies."),
 "C05": ("§2 C05", "typed-AST sink analysis of every []Comment field through the printer's methods (parameter-sink fixpoint); same-block pairing of every update of Parser.accComs with the transfer of what it removes, with caller checks for returned cuts; flow-sensitive freshness (reaching definitions over the CFG, interprocedural through parameters) for plain stores to comment fields; must-pass-through for give-back on nil returns and for the printer's set-aside queue; alias-liveness for in-place truncation; edge-cut domination for the Minify gate",
  "Decides that no comment can be dropped by construction. Parser: every removal from the accumulator is paired with a transfer of exactly the removed comments into a node's comment field (or a returned slice every caller stores in one); a comment field is plainly overwritten only when every reaching definition of its node is a fresh literal whose field was not stored before, across calls; a function that takes the accumulator for a node it then does not return gives it back or every caller errors (this found `time # c` losing its comment: repaired by a fix: commit). Printer: all 17 []Comment fields reach Printer.comments; flushComments writes every queued element before emptying; the heredoc set-aside is restored on every path and never truncated in place while the saved copy is live; with Minify comment text is written only under the shebang and first-line tests and nothing is queued.",
  "Does not decide placement/order of comments, nor that the three trailing-comment loops that stop after the first comment past the node never skip a second one (a parser invariant: at most one trailing comment is attached)."),
 "C06": ("§2 C06", "case-set inclusion between guards/predicates and token-function switches; exhaustiveness of panicking type-switch defaults with who-may-construct; field-invariant and reflect-marker idioms for unchecked assertions; panic inventory with an explicit precondition table; CFG edge-cut domination of fill() calls by constant-bounded guards and of backward buffer offsets by their underflow test; natural-loop cycle search with computed always-consuming functions and end-of-input exits; reset-field classification shared with C08",
  "Decides structural crash- and hang-freedom clauses for package syntax and typedjson: token functions ending in panic(\"unreachable\") are only called with runes they handle; every type switch whose default panics covers all parser-constructible node types and the JSON encoder handles every reachable field kind; both unchecked type assertions are dominated by the invariant that makes them safe; every remaining panic is an enumerated option/tree-shape precondition (a new panic call is undecided, hence fails); fill() is only called with a constant-bounded number of unread bytes (a lookahead that can fill the whole buffer makes Read return (0, nil) forever); backward offsets into the read buffer are guarded against unsigned underflow; every rune-level loop of the lexer and parser consumes input or reports an error on each cycle and leaves at the end-of-input sentinel; Parser/Printer reuse starts from reset state.",
  "Not decided: general index/nil/slice safety, running time beyond per-cycle progress, the 19 token-level parser loops (termination rests on _EOF being absorbing), trees not built by the parser. Four panic sites are table exceptions with reasons (Variant, StopAt, two typedjson tree-shape preconditions)."),
 "C30": ("§2 C30", "field-write classification of interp.Runner over the type-checked AST (configuration / first-reset block / Reset / runtime), key-by-key analysis of Reset's Runner literal against that classification, must-pass-through for the emptied-after idiom and for didReset, dominance of the !didReset guard and of fillExpandConfig in Run, must-pass-through of updateExpandOpts after every runtime option-table write",
  "Decides the Reset half structurally and one clause of the incremental half. Reset: every field stored by an option closure or by New is carried over by Reset's literal — from itself when only configuration code writes it, from its first-reset snapshot when builtins can overwrite it — or is consumed in the first-reset block; no literal key carries a field the running program can write unless it is emptied on every path afterwards; snapshots are taken only in the first-reset block and carried unchanged; didReset is set on every path. Incremental: Run resets only a never-reset Runner and refreshes the expansion options first, and every runtime write to the option table reaches updateExpandOpts on every path to the function exit (this rule found `shopt -s nullglob bogus` / `set -f -Z` leaving the rest of the Run on stale options: repaired by a fix: commit). A dropped handler, a leaked Funcs/alias/trap field or a missed refresh is one failing obligation whatever the history.",
  "Does not decide value-level equality of a reset Runner with a new one, nor the incremental clause beyond option refresh (EXIT trap, exit inside functions). Two reasoned exceptions (sourceSetParams, dirStack), one line each."),
 "C31": ("§2 C31", "natural-loop extraction on the decomposed-condition CFG with cycle search avoiding effective context checks; syntactic enumeration of every receive, select and WaitGroup.Wait with idiom matching (ctx.Done arm, AfterFunc completion handshake, goroutines bound to the same context); who-may-call / argument-provenance for os/exec; dominance of the read-deadline registration over every read of Runner.stdin; dominance of ctx.Err() over `return false` in Runner.stop; must-precede of context-capturing callback construction in Run",
  "Decides that every place where the interpreter can wait is cancellable by construction: each loop of package interp that can run user code or block has, on every cycle, a context check whose outcome leaves the loop; each channel receive/select/WaitGroup.Wait has a ctx.Done() arm or is structurally bounded; external commands are created with exec.CommandContext on the caller's context and a Cancel override always comes with WaitDelay before Start; every read of the Runner's standard input happens after its read deadline was tied to the context; Runner.stop cannot answer false without consulting ctx.Err() and stmt/call ask it first; callbacks capturing a context that live in Runner state are rebuilt by every Run. The rules found three hangs on the pinned tree (wait on a never-finishing job, empty-bodied C-style loop, mapfile on a blocked stdin), each repaired by a fix: commit. Runs on six build configurations in the thorough tier.",
  "Does not decide the numeric bound, the FIFO open inside the process-substitution goroutine (it may outlive Run), user-supplied handlers, or writes blocking on a full pipe. Assumes SetReadDeadline unblocks a pending read."),
 "C32": ("§2 C32", "SSA receiver-provenance of every Runner used inside a spawned function (go statements and WaitGroup.Go, enumerated) back to subshell(true) in the spawning function; fixpoint summary of the Runner fields each method may store; CFG ordering of exit-status store, close(done) and receive; the C27 storage-ownership rules reused",
  "Decides that everything the interpreter runs on another goroutine runs on a deep copy: inside each spawned function every Runner that is stored to (directly or through a method whose summary stores Runner fields) comes from subshell(true) of the spawning function and the parent Runner is only read; that a background job's exit status is stored before its done channel is closed and read only after receiving from it; and (shared with C27) that no copy writes through list/map storage it shares with the parent. A goroutine started on the parent or on subshell(false), or a status read without the receive, is one failing obligation regardless of schedule. Runs on six build configurations in the thorough tier.",
  "Explores no interleavings. Loads of parent fields from spawned functions (error reporting via the parent's stderr on FIFO failures) are listed in the evidence as observed, not decided. User-supplied handlers and writers are outside the analysis. Assumes go statements and WaitGroup.Go are the only goroutine starts in package interp (enumerated, with a floor)."),
 "C29": ("§2 C29", "the same SSA provenance analysis applied to syntax-tree storage (field stores, whole-value stores, element stores, appends, calls of functions that store through a node parameter), with a coinductive callback-argument analysis; AST enumeration of Runner.Env uses and writeEnv assignments",
  "Decides that the interpreter and expansion code never store into a syntax tree they were given: each store into a node, each element store/append on node slices and each call of a mutator such as SplitBraces acts on a copy or literal of the same activation, including inside callbacks (every invocation is shown to pass a fresh node). Decides that Runner.Env is only read (Get/Each, parent link of overlays) and never asserted to a writable environment, and that writeEnv is always an interpreter-created overlay.",
  "No reflection/unsafe in interp/expand/shell (checked). User-supplied handlers are outside the analysis."),
 "C07": ("§2 C07", "forward dataflow of 'bytes known present-or-EOF' over the lexer's decomposed-condition CFG, with summaries for fill/peek/peekTwo, per-call-site analysis of peekTwo, refill-cycle detection for unbounded lookahead, must-pass-through in fill",
  "Decides the necessary condition that every lookahead past the current rune is covered by a refill (or end of input) regardless of how Read chunked the bytes: each index of the read buffer, each acted-upon 'no bytes buffered' test and each open-ended forward slice is an obligation. A lookahead that only inspects what happens to be buffered gives different answers for different chunkings, whatever the input. Found four such sites on the pinned tree (two repaired by fix: commits, two listed as known findings). Also decides that fill() keeps bytes returned together with an error.",
  "Does not decide equality of whole trees/positions under chunking, nor the correctness of fill's sliding of unread bytes (read). Assumes fill returns 0 only at EOF or error."),
 "C08": ("§2 C08", "field-write classification over the type-checked AST (reset / configuration / entry-set / scratch / fresh-before-use), save-restore idiom via must-pass-through, dominance of reset() in entry points, sibling call-sequence agreement, counter pairing with correlated-guard pruning",
  "Decides that a reused Parser or Printer cannot observe state of an earlier use: each of the 41+24 fields is reset, or only written by option closures and the constructor, or set by every entry point, or scratch, or assigned fresh before every read, with a short reasoned table for five parser fields and one printer field written before they are read; that every entry point resets first and the convenience entry points only go through those; that Parse and StmtsSeq run the same prologue/loop/heredoc epilogue; and that the counters behind Incomplete() are decremented on every path. A new field without reset or classification, a dropped reset line or a leaked counter is one failing obligation.",
  "The five written-before-read parser fields and wroteSemi are reasoned exceptions (one line each), only checked to be written at all. Does not decide equality of the statements yielded by the streaming APIs."),
 "C10": ("§2 C10", "who-may-construct for error types, structural check of the Incomplete expression, counter and literal open/close pairing by must-pass-through on the CFG, cycle test for the offset update",
  "Decides that ParseError and LangError are each built in one place, that every ParseError carries Incomplete = (at EOF and Incomplete()), that p.err is stored only by errPass and fill, that the open-node counter and the literal buffer (the two inputs of Incomplete()) are balanced on every non-error path, and that fill() advances the offset base once per call. These are the structural preconditions of 'errors are well-formed and incompleteness is reported'.",
  "Three functions leave the literal open on purpose at end of input (named exceptions with reasons). Not decided: that every line-boundary prefix is flagged incomplete — a prefix cut inside a quoted here-document body is not (observed, see DESIGN.md), which no structural rule here captures."),
 "C35": ("§2 C35", "who-may-call over the module's reference graph for file-mutating os functions; CFG edge-cut domination for the Lstat/IsRegular guard; dominance ordering (fsync, close, rename) and must-pass-through (cleanup) in the pinned renameio dependency",
  "Decides that the only way shfmt modifies a path is the rename-based writer; that this call is dominated by a regular-file test on os.Lstat (not Stat) of the same path and writes that FileInfo's permission bits; and that in the pinned dependency the data goes to a temporary file removed on every incomplete exit, with fsync before close before rename on every path. Any additional write path, a Stat instead of Lstat, or a reordering in the dependency is a single failing obligation, whatever the kill point.",
  "Trusts rename(2) atomicity and fsync semantics; analysed for the unix build of renameio (its non-unix fallback is a plain write, as the source itself notes). Does not explore kill points."),
 "C36": ("§2 C36", "call-site enumeration (single funnel), CFG edge-cut domination by the one comparison, dominance ordering of buffer reset/print/compare, post-dominance of option applications, sibling agreement of option sets and language derivation",
  "Decides that stdin and file formatting share one formatBytes and that parsing, printing and simplifying happen only there; that list output, write, diff and the 'differs' status all hang off one comparison of the source with the printer's output while the plain stdout write does not, and that the bytes compared, written and diffed are the same values; that EditorConfig-derived options are applied unconditionally per file with the same printer option set as the flags, the variant is set before Parse on every path, and stdin and files derive the language from the same steps.",
  "Does not decide that the diff applies, nor EditorConfig lookup equality between a path and the -filename used for stdin."),
 "C11": ("§2 C11", "CFG must-pass-through with computed always-erroring functions; constant folding of variant sets; interprocedural forward dataflow of possible language variants and possible current tokens (least fixpoint over call sites, token production sites and per-value return summaries)",
  "Decides all three clauses structurally. Recovery: after every recoverError() that returns false, every path to the exit reports an error, so accepted inputs never reach a recovery site and parse identically with recovery on. Bash/Bats: every variant set tested anywhere in package syntax contains LangBash and LangBats together or neither (one designed exception, @test, is a listed known finding). POSIX gating: an interprocedural analysis computes, for every point of the parser, the variants under which it is reachable by a still-accepted input; every construction site of a non-POSIX node type, field or operator must exclude LangPOSIX. The analysis found three ungated sites on the pinned tree (two repaired by fix: commits, array syntax in POSIX mode listed as known findings).",
  "Sound relative to: variant tests happen only through in(), checkLang() and direct comparison (enumerated); errPass makes the parse fail; the table of non-POSIX constructs (node documentation plus an explicit field/operator table in the checker). Operators inside arithmetic that the parser gates nowhere are outside the table. Does not decide that Bash and Bats trees are equal beyond taking the same branches."),
 "C13": ("§2 C13", "who-may-construct for QuoteError, enclosing-condition matching of each refusal, rune-table agreement lexer/Quote (case-set extraction)",
  "Decides that Quote refuses only at its four documented sites, each under its documented variant and rune condition; that every rune which starts a token in the lexer, separates words, escapes or starts a comment triggers quoting, with the unquoted return guarded by the three tests; and that the double-quote fallback escapes every rune the lexer treats specially inside double quotes. A token rune left unquoted yields more than one word for some string, so these are necessary conditions over all strings and variants.",
  "Does not decide that the quoting styles expand back to the input in the real shells, nor the $'..' escape table. Trusts constant evaluation by go/types."),
 "C18": ("§2 C18", "case-set extraction from switch statements and set inclusion between QuoteMeta, HasMeta and regexpNext, per mode block",
  "Decides the 'writer's and reader's tables agree' part: QuoteMeta's scan and escape sets are equal, every byte HasMeta treats as meta and every rune with a special arm in regexpNext is escaped by QuoteMeta, and for each mode-dependent operator block of regexpNext both QuoteMeta and HasMeta account for it. A rune special to Regexp that QuoteMeta leaves alone makes QuoteMeta(s) match something other than s. Two obligations fail on today's tree (extended operators) and are listed as known findings with reproducers.",
  "Does not decide that escaped patterns match exactly s; bracket expressions and classes are out of scope. Assumes regexpNext's default arm emits the rune literally (read)."),
 "C34": ("§2 C34", "call-site classification (stable vs unstable sort), forbidden direct string orderings, structural shape of the dedup loop",
  "Decides that the sort feeding duplicate elimination is stable, that sort, duplicate test and binary search order names only through the one comparator, that the earlier duplicate is the one removed and invalid pairs are dropped, that Each is a read-only in-order range and that FuncEnviron maps the empty value to unset. An unstable sort or a second ordering is invisible to the short lists the tests use but breaks 'last value wins' / Get on some list.",
  "Does not decide the comparator's correctness for names that are prefixes of each other, nor the binary-search bounds (value-level). Trusts the documented behaviour of package slices."),
 "C01": ("§2 C01", "typed-AST switch exhaustiveness with who-may-construct, field-read coverage over the call graph from Print, sibling agreement printer/parser, CFG classification of error returns",
  "Decides that the printer cannot lose a part of the tree by construction: every emitting type switch reachable from Print covers every parser-constructible node type, every non-position, non-comment node field is read by printer code (the documented cosmetic rewrites excepted one symbol each), and Print fails only for the documented refusal, an unsupported root and flush errors. A field or node type the printer never looks at cannot survive Parse-Print-Parse, so this is a necessary condition over all inputs and option combinations.",
  "Does not decide quoting, spacing, separators or heredoc placement, i.e. that what is printed re-parses to the same tree. Trusts the reference graph (type-resolved identifiers, interface calls expanded to all implementations) and that the printer does not use reflection (checked)."),
 "C14": ("§2 C14", "typed-AST exhaustiveness + per-case path enumeration + CFG must-pass-through (go/types, own CFG)",
  "Decides from the source that syntax.Walk has a case for every parser-constructible node type, that each case hands every child and comment field to a visiting helper exactly once on every path, that f(node)/f(nil) bracket the children on every path and that Preorder cannot yield after the consumer stopped. This is the structural part of 'visits every node exactly once'; it quantifies over all code paths of Walk rather than over sampled trees.",
  "Trusts go/types and the checker's CFG construction; assumes trees are acyclic and nodes are built only in package syntax; does not decide the comment-order invariant behind the break in the trailing-comment loops."),

 "C15": ("§2 C15", "registry/type-table agreement, constant-folded stringer tables inverted through UnmarshalText switches, forward dataflow of reflect kinds over a decomposed-condition CFG",
  "Decides that the decoder registry covers exactly the Node types; that every field reachable from a node type is of a kind both encoder and decoder handle; that every operator constant's wire string (evaluated from the stringer tables in the source) is mapped back to the same value; and that every reflect operation in decodeValue/decodePos that panics on a mismatching kind/type is dominated by the test that makes it safe (the 'Decode never panics' clause, for the reflect layer). These are necessary conditions of the round trip over all trees and all JSON inputs.",
  "Trusts encoding/json's documented output types and reflect's documented panics; does not decide byte-identical re-encoding nor field-by-field equality of decoded trees."),
}

# id -> reason (properties not claimed)
NA = {
 "C02": "idempotence is a fixed point of position-driven layout (wantsNewline/nestedStmts/flushComments compare source lines with printer state); no clause of it is visible in the shape of the code; the one structural part (printer reset) is decided under C08",
 "C03": "needs execution of the original and the formatted program under two interpreters; the structural part coincides with C01",
 "C09": "every clause relates numeric positions to input bytes; a static handle would be a frozen-constant match on End() widths",
 "C12": "the oracle is bash -n / dash -n; nothing in the source encodes their grammars",
 "C16": "pure input/output equivalence with bash brace expansion; the flag clause depends on data, not on code shape",
 "C17": "language equivalence between generated regular expressions and bash's matcher over all strings",
 "C19": "equality of glob results with bash over generated directory trees; runtime strings and an external oracle",
 "C20": "equality of arithmetic results with bash; runtime integers and an external oracle",
 "C21": "equality of parameter expansion results with bash; runtime strings and an external oracle",
 "C22": "equality of field splitting with bash; runtime strings and an external oracle",
 "C23": "equality of read's splitting with bash; runtime strings and an external oracle",
 "C24": "equality of printf/echo output bytes with bash; runtime strings and an external oracle",
 "C25": "equality of shell.Expand/Fields with bash; runtime strings and an external oracle",
 "C26": "whole-interpreter output equality with bash over generated programs",
 "C33": "equality with a reference map model over operation histories; the aliasing aspect is decided under C27",
}
PENDING = "check designed (DESIGN.md §2) but not yet built in this tree; not claimed until its rules pass on the tree and fire on their controls"

checks = []
for pid in ALL:
    if pid in CLAIMED:
        ref, tech, text, note = CLAIMED[pid]
        checks.append({
            "property_id": pid,
            "quick_cmd": f"./run.sh {pid} quick",
            "thorough_cmd": f"./run.sh {pid} thorough",
            "evidence_file": f"/verif/evidence/{pid}.json",
            "replay_cmd_template": "cat {path}",
            "engine": "shcheck",
            "level_claimed": {"category": "other", "text": text, "design_ref": ref},
            "level_note": note,
            "technique": "static analysis: " + tech,
        })
na = []
for pid in ALL:
    if pid in CLAIMED:
        continue
    na.append({"property_id": pid, "reason": NA.get(pid, PENDING)})

m = {
 "version": 1,
 "setup_cmd": "./build.sh",
 "hooks": {
  "guard": "verif",
  "enable": "none: static analysis reads the source as it is; no hook or instrumentation commit exists",
  "baseline_off_cmd": "python3 /verif/tools/baseline.py /repo",
  "source_commits": [],
  "add_only": True,
 },
 "engines": [{
  "name": "shcheck",
  "path": "/verif/checker",
  "serves_properties": sorted(CLAIMED),
  "kind_free_text": "repository-specific static analyser (Go, golang.org/x/tools v0.50.0: go/packages, go/types, go/ssa, own CFG with decomposed conditions); one sub-command per property; rule instances keyed by resolved objects; floors, known-findings table, overlay-seeded controls in the thorough tier",
 }],
 "checks": checks,
 "not_applicable": na,
 "notes": "Technique family: static analysis only. Every verdict is computed from /repo's current source on each run; nothing in /repo is executed. All claims are level 'other': each decides named structural clauses that are necessary conditions of the property, listed with what is not decided in DESIGN.md §2 and in each evidence file. Fixes made to /repo are 'fix:' commits listed in KNOWN_FINDINGS.txt.",
}
json.dump(m, open(os.path.join(V, "MANIFEST.json"), "w"), indent=1)
try:
    import jsonschema
    jsonschema.validate(m, json.load(open("/root/.vp/MANIFEST.schema.json")))
    print("MANIFEST.json valid;", len(checks), "checks,", len(na), "not applicable")
except ImportError:
    print("written (jsonschema not available to validate)")
