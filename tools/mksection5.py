#!/usr/bin/env python3
"""Rewrites the seed table of DESIGN.md §5 from /verif/seeded/*/meta.json (via seedtable.py)."""
import subprocess, re
out = subprocess.check_output(["python3", "/verif/tools/seedtable.py"], text=True)
head, table = out.split("\n\n", 1)
p = "/verif/DESIGN.md"
s = open(p).read()
i = s.index("| seed | round | change | caught by (now) | rule | first look")
j = s.index("\n\nMisses that remain, and why:", i)
s = s[:i] + table.rstrip("\n") + s[j:]
open(p, "w").write(s)
print(head)
