#!/usr/bin/env python3
"""Prints the DESIGN.md §5 table from /verif/seeded/*/meta.json (after tools/seedrefresh.py)."""
import json, glob, os, re
FIRST_LOOK = {  # recorded when the seed was first run, before any rule was touched for it
 "C27-4": "missed", "C27-5": "caught", "C27-6": "caught",
 "C30-4": "caught", "C30-5": "missed", "C30-6": "missed",
 "C31-4": "caught", "C31-5": "missed", "C31-6": "missed",
 "C11-4": "caught", "C11-5": "caught", "C11-6": "caught",
 "C29-4": "caught", "C29-5": "caught", "C29-6": "caught",
 "C32-4": "caught", "C32-5": "caught", "C32-6": "caught (undecided provenance)",
 "C14-4": "caught", "C14-5": "unknown-shape alarm only", "C14-6": "unknown-shape alarm only",
 "C36-4": "caught", "C36-5": "missed by C36, caught by C08", "C36-6": "caught",
 "C01-4": "missed", "C01-5": "missed", "C01-6": "missed",
 "C08-4": "caught", "C08-5": "caught", "C08-6": "missed by C08, caught by C07",
 "C15-4": "missed", "C15-5": "caught", "C15-6": "missed",
 "C13-4": "missed", "C13-5": "caught", "C13-6": "missed",
 "C35-4": "caught", "C35-5": "caught", "C35-6": "caught",
 "C07-4": "missed by C07, caught by C06", "C07-5": "caught", "C07-6": "missed by C07, caught by C06/C08",
 "C10-4": "missed", "C10-5": "missed", "C10-6": "missed",
 "C34-4": "missed", "C34-5": "missed", "C34-6": "missed",
 "C18-4": "missed", "C18-5": "missed", "C18-6": "unknown-shape alarm only",
 # round 3
 "C27-7": "caught", "C27-8": "missed", "C27-9": "caught",
 "C04-7": "missed", "C04-8": "missed", "C04-9": "caught",
 "C05-7": "caught", "C05-8": "floor alarm only", "C05-9": "floor alarm only",
 "C06-7": "caught", "C06-8": "missed", "C06-9": "caught",
 "C28-7": "caught", "C28-8": "missed", "C28-9": "missed",
 "C13-7": "missed", "C13-8": "missed", "C13-9": "missed",
 "C31-7": "missed", "C31-8": "missed", "C31-9": "caught",
 "C14-7": "unknown-shape alarm only", "C14-8": "unknown-shape alarm only", "C14-9": "caught",
 "C30-7": "missed", "C30-8": "missed", "C30-9": "caught",
 "C15-7": "lost-anchor alarm only", "C15-8": "caught", "C15-9": "missed",
 "C32-7": "caught", "C32-8": "caught", "C32-9": "missed",
 "C29-7": "caught", "C29-8": "caught", "C29-9": "missed by C29, caught by C27",
 "C11-7": "caught", "C11-8": "caught", "C11-9": "missed",
 "C08-7": "missed", "C08-8": "missed by C08, caught by C06/C07", "C08-9": "missed",
 "C07-7": "missed by C07, caught by C06", "C07-8": "missed", "C07-9": "missed",
 "C35-7": "caught", "C35-8": "caught", "C35-9": "caught",
 "C36-7": "missed", "C36-8": "missed", "C36-9": "caught",
 "C10-7": "caught", "C10-8": "missed", "C10-9": "caught (by R10g, written from the same agent's side observation before the seed was run)",
 # round 4
 "C14-10": "unknown-shape alarm only", "C14-11": "caught", "C14-12": "unknown-shape alarm only",
 "C30-10": "caught", "C30-11": "missed", "C30-12": "missed",
 "C08-10": "missed", "C08-11": "caught", "C08-12": "caught",
 "C05-10": "caught", "C05-11": "missed", "C05-12": "caught",
 "C27-10": "caught", "C27-11": "caught", "C27-12": "caught",
 "C28-10": "missed", "C28-11": "missed", "C28-12": "missed",
 "C13-10": "caught", "C13-11": "caught", "C13-12": "caught",
 "C06-10": "missed", "C06-11": "missed", "C06-12": "missed",
 "C04-10": "false alarm only (R04a did not see that a helper hands its argument on to a method that sets the flag; corrected)", "C04-11": "false alarm only (R04a did not see the `result != argument` idiom; corrected)", "C04-12": "caught",
 "C07-10": "missed by C07 (C10's R10d: unknown-shape alarm)", "C07-11": "caught", "C07-12": "missed",
 "C11-10": "missed", "C11-11": "caught", "C11-12": "caught",
 "C01-10": "missed by C01, caught by C04", "C01-11": "missed by C01, caught by C07", "C01-12": "missed by C01, caught by C05 (with the wrong reason: R05f did not see through the predicate helper; corrected)",
 "C17-1": "unknown-shape alarm only (R17b took a helper that wraps QuoteMeta for a raw write; corrected, the seed is now missed)", "C17-2": "missed", "C17-3": "missed",
 "C31-10": "caught", "C31-11": "caught", "C31-12": "caught",
 "C15-10": "missed by C15 (C06's R06c raised a false alarm on the sync.Pool idiom; corrected)", "C15-11": "missed", "C15-12": "caught",
 "C36-10": "caught", "C36-11": "missed", "C36-12": "missed by C36, caught by C35",
 "C34-10": "missed", "C34-11": "unknown-shape alarms only", "C34-12": "caught",
 "C32-10": "caught", "C32-11": "caught", "C32-12": "caught",
 "C18-10": "missed", "C18-11": "missed by C18, caught by C17 (R17d, written a few hours earlier for C17-3)", "C18-12": "caught",
 "C29-10": "missed", "C29-11": "caught", "C29-12": "caught",
 "C35-10": "caught", "C35-11": "caught", "C35-12": "caught (as a renameio entry point other than WriteFile: a policy alarm)",
 # round 5 (five properties)
 "C17-4": "missed", "C17-5": "missed", "C17-6": "missed",
 "C04-13": "missed", "C04-14": "missed", "C04-15": "missed",
 "C28-13": "missed", "C28-14": "missed", "C28-15": "missed",
 "C10-13": "caught", "C10-14": "missed by C10, caught by C07", "C10-15": "caught",
 "C06-13": "missed", "C06-14": "missed", "C06-15": "missed",
 "C30-13": "caught", "C30-14": "caught", "C30-15": "caught",
 "C11-13": "caught", "C11-14": "caught", "C11-15": "caught",
 "C31-13": "caught", "C31-14": "caught", "C31-15": "missed",
 "C07-13": "missed", "C07-14": "missed by C07, caught by C06", "C07-15": "caught",
 "C08-13": "missed", "C08-14": "caught", "C08-15": "missed by C08, caught by C10",
 "C05-13": "caught", "C05-14": "missed", "C05-15": "missed",
 "C27-13": "caught", "C27-14": "caught", "C27-15": "caught",
 "C13-13": "missed", "C13-14": "caught", "C13-15": "caught (by the floor of R13e: the escape table moved out of the switch the rule reads)",
 "C15-13": "caught (by the floor of R15d)", "C15-14": "missed", "C15-15": "missed",
 "C29-13": "caught", "C29-14": "missed by C29, caught by C28 (an alarm on an assertion that a closure predicate does guard)", "C29-15": "caught",
 "C36-13": "caught (R36a: a policy alarm on parsing outside formatBytes)", "C36-14": "caught", "C36-15": "caught",
 "C01-13": "missed", "C01-14": "missed", "C01-15": "missed",
 "C34-13": "caught", "C34-14": "caught", "C34-15": "caught (undecided: the sort is no longer where R34a looks)",
 "C18-13": "missed", "C18-14": "missed", "C18-15": "missed",
 "C14-13": "caught", "C14-14": "caught", "C14-15": "caught",
 "C32-13": "caught", "C32-14": "missed", "C32-15": "caught (by the floor of R32c: `defer close(…)` was not a shape the rule read)",
 "C35-13": "caught", "C35-14": "caught", "C35-15": "caught",
 "C10-10": "missed", "C10-11": "missed", "C10-12": "unknown-shape alarm only (a false one: R10e took `Pos{}` in reset() for state; corrected)",
}
def key(d):
    m = re.match(r".*/C(\d+)-(\d+)$", d); return (int(m.group(1)), int(m.group(2)))
rows = []; caught = missed = 0
for d in sorted(glob.glob("/verif/seeded/C*-*"), key=key):
    name = os.path.basename(d)
    m = json.load(open(os.path.join(d, "meta.json")))
    desc = m.get("description", "")
    first = desc.splitlines()[0] if desc else ""
    if not first and os.path.exists(os.path.join(d, "README.md")):
        first = open(os.path.join(d, "README.md")).read().splitlines()[0]
    first = re.sub(r"^#\s*(\S+\s+)?[Vv]ariant\s+\d+\s*[—:-]\s*", "", first).strip().rstrip(".")
    first = first.replace("|", "\\|")
    if len(first) > 150: first = first[:147] + "…"
    det, rule = [], ""
    ch = m.get("checker", {})
    if isinstance(ch, dict):
        for c, v in ch.items():
            if isinstance(v, dict) and v.get("detected"):
                det.append(c)
                if not rule and v.get("reports"):
                    rules = []
                    for rep in v["reports"]:
                        mm = re.search(r"rule=(\S+)", rep)
                        if mm and mm.group(1) not in rules: rules.append(mm.group(1))
                    rule = ", ".join(rules[:3])
    nn = int(name.split("-")[1])
    rnd = "1" if nn <= 3 else ("2" if nn <= 6 else ("3" if nn <= 9 else ("4" if nn <= 12 else "5")))
    if name.startswith("C17-"): rnd = "4" if nn <= 3 else "5"  # C17 was claimed in round 4; its first seeds were made then
    fl = FIRST_LOOK.get(name, "" if rnd == "1" else "not recorded")
    if det: caught += 1
    else: missed += 1
    rows.append(f"| {name} | {rnd} | {first} | {', '.join(det) if det else '**missed**'} | {rule} | {fl} |")
print(f"{caught + missed} seeds: {caught} caught, {missed} missed\n")
print("| seed | round | change | caught by (now) | rule | first look (rounds 2–5) |\n|---|---|---|---|---|---|")
print("\n".join(rows))
