#!/bin/sh
# Applies a set of behaviour-preserving edits (renamed locals and parameters, shifted line numbers, a function moved
# within its file, an unrelated new helper) to a scratch worktree of /repo and runs every check against it.
# Every check must still pass: a rule keyed by line numbers, local names or function order would fail here.
set -e
WT=/tmp/wt/harmless
git -C /repo worktree remove --force $WT 2>/dev/null || true
git -C /repo worktree add -q --detach $WT HEAD
cd $WT
python3 - <<'PY'
import re
def edit(path, f):
    s=open(path).read(); s2=f(s); assert s!=s2, path; open(path,'w').write(s2)
edit('syntax/printer.go', lambda s: re.sub(r'\bcoms\b','savedComments',s))
for f in ['syntax/parser.go','syntax/lexer.go','interp/runner.go','interp/builtin.go','interp/api.go','expand/expand.go','cmd/shfmt/main.go','syntax/walk.go','syntax/simplify.go','interp/vars.go','expand/param.go']:
    edit(f, lambda s: s.replace('\npackage ', '\n// harmless line 1\n// harmless line 2\n\npackage ',1))
def move(s):
    i=s.index('func (p *Parser) peekTwo()'); j=s.index('\n}\n',i)+3
    fn=s[i:j]; return s[:i]+s[j:]+'\n'+fn
edit('syntax/lexer.go', move)
edit('interp/runner.go', lambda s: s.replace('func (r *Runner) loopStmtsBroken(ctx context.Context, stmts []*syntax.Stmt) bool {','func (r *Runner) loopStmtsBroken(ctx context.Context, body []*syntax.Stmt) bool {').replace('for _, stmt := range stmts {\n\t\tr.stmt(ctx, stmt)\n\t\tif r.contnEnclosing','for _, stmt := range body {\n\t\tr.stmt(ctx, stmt)\n\t\tif r.contnEnclosing'))
edit('expand/expand.go', lambda s: s+'\n// harmlessHelper is not used by anything that matters.\nfunc harmlessHelper(a, b int) int {\n\tif a > b {\n\t\treturn a\n\t}\n\treturn b\n}\n\nvar _ = harmlessHelper\n')
# second batch: refactors around the later rules
edit('interp/handler.go', lambda s: re.sub(r'\bkillTimeout\b','killAfter',s))
def renameIn(s, start, old, new):
    i=s.index(start); j=s.index('\n}\n',i)+3
    return s[:i]+re.sub(r'\b'+old+r'\b',new,s[i:j])+s[j:]
edit('interp/runner.go', lambda s: renameIn(s,'func (r *Runner) fillExpandConfig(','r2','sub'))
edit('interp/api.go', lambda s: s.replace('\tr.exit = exitStatus{}\n\tr.filename = ""\n','\tr.filename = ""\n\tr.exit = exitStatus{}\n'))
edit('expand/expand.go', lambda s: renameIn(s,'func formatInto(','max','limit'))
edit('syntax/lexer.go', lambda s: s.replace('func (p *Parser) peek() byte {\n\tif int(p.bsp) >= len(p.bs) {\n\t\tp.fill()\n\t}\n\tif int(p.bsp) >= len(p.bs) {','func (p *Parser) peek() byte {\n\tif int(p.bsp) >= len(p.bs) {\n\t\tp.fill()\n\t}\n\tif len(p.bs) <= int(p.bsp) {'))
edit('syntax/printer.go', lambda s: s.replace('\thdocs := p.pendingHdocs\n','\tvar hdocs []*Redirect\n\thdocs = p.pendingHdocs\n'))
edit('syntax/simplify.go', lambda s: s.replace('\t\tif node.Op == TsMatchShort {\n\t\t\ts.modified = true\n\t\t\tnode.Op = TsMatch\n\t\t}','\t\tif node.Op == TsMatchShort {\n\t\t\tnode.Op = TsMatch\n\t\t\ts.modified = true\n\t\t}'))
edit('interp/test.go', lambda s: s.replace('\t\t\t_, ok := stdinTerminal(r.stdin)\n\t\t\treturn ok\n','\t\t\t_, isTerm := stdinTerminal(r.stdin)\n\t\t\treturn isTerm\n'))
# third batch: the command substitution body moved into a helper that makes the copy itself
edit('interp/runner.go', lambda s: s.replace("""			sub := r.subshell(false)
			sub.stdout = w
			sub.stmts(ctx, cs.Stmts)
			sub.exit.exiting = false // subshells don't exit the parent shell
			r.lastExpandExit = sub.exit
			if sub.exit.fatalExit {
				return sub.exit.err // surface fatal errors immediately
			}
			return nil
""","""			sub := r.runIsolated(ctx, w, cs.Stmts)
			r.lastExpandExit = sub.exit
			if sub.exit.fatalExit {
				return sub.exit.err // surface fatal errors immediately
			}
			return nil
""").replace("func (r *Runner) updateExpandOpts() {", """func (r *Runner) runIsolated(ctx context.Context, w io.Writer, stmts []*syntax.Stmt) *Runner {
	sub := r.subshell(false)
	sub.stdout = w
	sub.stmts(ctx, stmts)
	sub.exit.exiting = false // subshells don't exit the parent shell
	return sub
}

func (r *Runner) updateExpandOpts() {"""))
# fourth batch: refactors around the round-2/3 rules
def to_method(s):
    s=s.replace('func decodeValue(val reflect.Value, enc any) error {','type decoder struct{}\n\nfunc (d *decoder) decodeValue(val reflect.Value, enc any) error {')
    s=re.sub(r'(?<![.\w])decodeValue\(', 'd.decodeValue(', s)
    s=s.replace('func (d *decoder) d.decodeValue(','func (d *decoder) decodeValue(')
    return s
edit('syntax/typedjson/json.go', to_method)
edit('syntax/typedjson/json.go', lambda s: s.replace('func (opts DecodeOptions) Decode(r io.Reader) (syntax.Node, error) {','func (opts DecodeOptions) Decode(r io.Reader) (syntax.Node, error) {\n\td := &decoder{}',1))
edit('expand/environ.go', lambda s: renameIn(s,'func listEnviron_(','list','sorted'))
edit('pattern/pattern.go', lambda s: s.replace("""		needsEscaping := false
	noopLoop:
		for _, r := range pat {
			switch r {
			// including those that need escaping since they are
			// regular expression metacharacters
			case '*', '?', '[', '\\\\', '.', '+', '(', ')', '|',
				']', '{', '}', '^', '$':
				needsEscaping = true
				break noopLoop
			}
		}
		if !needsEscaping {
			return pat, nil
		}""","""		// including those that need escaping since they are
		// regular expression metacharacters
		if !strings.ContainsAny(pat, `*?[\\.+()|]{}^$`) {
			return pat, nil
		}"""))
# fifth batch: refactors around the round-4 rules
edit('syntax/lexer.go', lambda s: s.replace('if p.quote != hdocWord && len(p.heredocs) > p.buriedHdocs {','if len(p.heredocs) > p.buriedHdocs && p.quote != hdocWord {'))
edit('syntax/parser.go', lambda s: s.replace('\t\ts.Comments, b.X.Comments = b.X.Comments, nil\n\t\t// in "! x | y"','\t\ts.Comments = b.X.Comments\n\t\tb.X.Comments = nil\n\t\t// in "! x | y"'))
edit('syntax/parser.go', lambda s: s.replace('func (p *Parser) posErr(pos Pos, format string, args ...any) {','func (p *Parser) posErr(at Pos, format string, args ...any) {').replace('\tif pos.IsRecovered() {','\tif at.IsRecovered() {').replace('\t\tpos = p.pos\n\t}\n\tp.errPass(ParseError{\n\t\tFilename:   p.f.Name,\n\t\tPos:        pos,','\t\tat = p.pos\n\t}\n\tp.errPass(ParseError{\n\t\tFilename:   p.f.Name,\n\t\tPos:        at,'))
edit('syntax/parser.go', lambda s: s.replace("""		p.openNodes++
		p.doHeredocs()
		p.openNodes--
	}
	return p.f, p.err
""","""		p.trailingHeredocs()
	}
	return p.f, p.err
""").replace("func (p *Parser) doHeredocs() {","""func (p *Parser) trailingHeredocs() {
	p.openNodes++
	p.doHeredocs()
	p.openNodes--
}

func (p *Parser) doHeredocs() {"""))
edit('syntax/parser.go', lambda s: s.replace('\tp.postNested(old)\n\tif _, ok := p.gotRsrv("]]"); !ok {','\tp.postNested(old)\n\ts.Cmd = tc\n\tif _, ok := p.gotRsrv("]]"); !ok {'))
edit('syntax/printer.go', lambda s: renameIn(s,'func (p *Printer) nestedStmts(','closing','end'))
# sixth batch: refactors around the later round-4 rules
edit('syntax/simplify.go', lambda s: re.sub(r'\binIndex\b','indexNodes',s))
edit('syntax/simplify.go', lambda s: re.sub(r'\bmarkIndex\b','noteIndex',s))
edit('syntax/simplify.go', lambda s: re.sub(r'\bquoteSensitive\b','needsItsQuotes',s))
edit('interp/vars.go', lambda s: s.replace('\t\tif prev.Map == nil {\n\t\t\tprev.Map = make(map[string]string)\n\t\t}','\t\tif nil == prev.Map {\n\t\t\tprev.Map = make(map[string]string)\n\t\t}'))
edit('syntax/lexer.go', lambda s: s.replace('\t\tp.bsp = uint(len(p.bs)) + 1\n\t\tp.r = runeEOF\n','\t\tp.bsp = 1 + uint(len(p.bs))\n\t\tp.r = runeEOF\n'))
edit('cmd/shfmt/main.go', lambda s: renameIn(s,'func formatStdin(','src','input'))
edit('pattern/pattern.go', lambda s: s.replace('\t\t\tif sl.peekNext() != \')\' {','\t\t\tif \')\' != sl.peekNext() {'))
# seventh batch: refactors around the round-5 rules
edit('syntax/parser.go', lambda s: s.replace('\tif tc.X = p.testExprBinary(false); tc.X == nil {\n\t\tp.followErrExp(tc.Left, dblLeftBrack)\n\t}\n','\tinner := p.testExprBinary(false)\n\tif nil == inner {\n\t\tp.followErrExp(tc.Left, dblLeftBrack)\n\t}\n\ttc.X = inner\n'))
edit('syntax/parser_arithm.go', lambda s: s.replace('\t\ty := nextOp(compact)\n\t\tif y == nil {\n\t\t\tp.followErrExp(pos, foundOp)\n\t\t}\n','\t\trhs := nextOp(compact)\n\t\tif rhs != nil {\n\t\t} else {\n\t\t\tp.followErrExp(pos, foundOp)\n\t\t}\n\t\ty := rhs\n'))
edit('syntax/parser.go', lambda s: s.replace('\thdocs := p.heredocs[p.buriedHdocs:]\n\tif len(hdocs) == 0 {\n','\tif len(p.heredocs) <= p.buriedHdocs {\n\t\treturn\n\t}\n\thdocs := p.heredocs[p.buriedHdocs:]\n\tif 0 == len(hdocs) {\n'))
edit('syntax/lexer.go', lambda s: s.replace('\t\tif left > 0 {\n\t\t\tp.bs = p.readBuf[:left]\n\t\t} else {\n\t\t\tp.bs = nil\n\t\t}\n','\t\tif left <= 0 {\n\t\t\tp.bs = nil\n\t\t} else {\n\t\t\tp.bs = p.readBuf[:left]\n\t\t}\n'))
edit('syntax/lexer.go', lambda s: s.replace('p.bs[p.bsp-uint(p.w):p.bsp]...)','p.bs[p.bsp-uint(int(p.w)):p.bsp]...)'))
edit('syntax/parser.go', lambda s: s.replace('\tw := p.getWord()\n\tif op == OtherParamOps && w != nil && w.Lit() == "" {','\toperand := p.getWord()\n\tw := operand\n\tif w != nil && op == OtherParamOps && "" == w.Lit() {'))
edit('syntax/parser.go', lambda s: s.replace('\tcc.Name = p.getWord()\n\tcc.Stmt = p.gotStmtPipe(&Stmt{Position: p.pos}, false)\n\tif cc.Stmt == nil {','\tcc.Name = p.getWord()\n\tinner := &Stmt{Position: p.pos}\n\tcc.Stmt = p.gotStmtPipe(inner, false)\n\tif cc.Stmt == nil {'))
# eighth batch: refactors around the late round-5 rules
edit('expand/expand.go', lambda s: s.replace('\t\t\tpart := internal.UnescapePattern(part)\n','\t\t\tescaped := part\n\t\t\tpart := internal.UnescapePattern(escaped)\n'))
edit('internal/pattern.go', lambda s: s.replace('\tprefix, suffix = UnescapePattern(prefix), UnescapePattern(suffix)\n','\tprefix = UnescapePattern(prefix)\n\tsuffix = UnescapePattern(suffix)\n'))
edit('pattern/pattern.go', lambda s: s.replace("\t\t\t\tdefault:\n\t\t\t\t\tif filenames && c == '/' {\n\t\t\t\t\t\thasSlash = true\n\t\t\t\t\t}\n\t\t\t\t\tbsb.WriteString(regexp.QuoteMeta(string(c)))","\t\t\t\tdefault:\n\t\t\t\t\tif '/' == c && filenames {\n\t\t\t\t\t\thasSlash = true\n\t\t\t\t\t}\n\t\t\t\t\tbsb.WriteString(regexp.QuoteMeta(string(c)))"))
edit('syntax/printer.go', lambda s: s.replace('\t\tif r.Pos().After(pos) || r.Op == Hdoc || r.Op == DashHdoc {','\t\tif r.Op == DashHdoc || r.Op == Hdoc || r.Pos().After(pos) {'))
edit('syntax/printer.go', lambda s: s.replace('\t\tif r.Op == DashHdoc && p.indentSpaces == 0 && !p.minify {','\t\tif !p.minify && p.indentSpaces == 0 && r.Op == DashHdoc {'))
edit('interp/api.go', lambda s: s.replace('\tif e.returning || e.exiting || e.fatalExit {\n\t\treturn\n\t}\n\te.code = 0','\tif e.fatalExit || e.returning || e.exiting {\n\t\treturn\n\t}\n\te.code = 0'))
edit('syntax/simplify.go', lambda s: renameIn(s,'func (s *simplifier) removeParensTest(','par','inner'))
PY
GOFLAGS=-mod=mod GOPROXY=off go build ./...
cd /verif
rc=0
for id in $(jq -r '.checks[].property_id' MANIFEST.json); do
  out=$(./bin/shcheck $id --repo $WT --no-evidence 2>&1 | tail -1)
  echo "$out" | cut -c1-160
  case "$out" in *" OK:"*) ;; *) rc=1;; esac
done
[ -n "$KEEP" ] || git -C /repo worktree remove --force $WT
exit $rc
