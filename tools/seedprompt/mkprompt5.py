import json, sys, glob, os, re
tmpl = open('/tmp/props/prompt2-C30.txt').read()
props = {json.loads(l)['id']: json.loads(l) for l in open('/verif/properties.jsonl')}
p30 = props['C30']
def anchors(d):
    a = d['anchors']
    parts = [', '.join(a.get('files', []))]
    for m in a.get('mechanism', []):
        parts.append(f"{m['name']} ({m['where']})")
    return '; '.join(parts)
def block(d):
    return (f"Title: {d['title']}\n\nStatement: {d['statement']}\n\nQuantified over: {', '.join(d['quantifier']['over'])} — {d['quantifier']['text']}\n\n"
            f"Why existing tests cannot settle it: {d['why_tests_cant']}\n\nAnchors (where the mechanism lives): {anchors(d)}")
b30 = block(p30)
assert b30 in tmpl, 'template block mismatch'
for pid in sys.argv[1:]:
    d = props[pid]
    t = tmpl.replace(b30, block(d)).replace('C30', pid).replace('seed-out2', 'seed-out5').replace('-r2', '-r5')
    # earlier ideas
    ideas = []
    for m in sorted(glob.glob(f'/verif/seeded/{pid}-*/meta.json')):
        mj = json.load(open(m))
        desc = mj.get('description', '')
        first = desc.splitlines()[0] if desc else ''
        first = re.sub(r'^#\s*\S+\s+variant\s+\d+\s*[—-]\s*', '', first)
        if first: ideas.append(first.strip().rstrip('.'))
    t = t[:t.index('Note: an earlier batch')] + 'Note: an earlier batch already used these ideas for this property, so choose DIFFERENT mechanisms: ' + '; '.join(ideas) + '.'
    t += '\n\nOne more thing, separate from the three variants: while you explore, you may notice inputs, schedules or histories for which the UNMODIFIED tree already violates the property. List every such case you can reproduce at the end of your report, with the exact input and what you observed (keep them out of the demonstrations).'
    open(f'/tmp/props/prompt5-{pid}.txt', 'w').write(t)
    print(pid, len(t), len(ideas))
