#!/bin/sh
# Usage: ./run.sh <Cxx> [quick|thorough]
# Builds the checker if needed (offline, pinned toolchain) and runs one property.
set -e
cd "$(dirname "$0")"
export GOFLAGS=-mod=mod GOPROXY=off GOSUMDB=off GOTOOLCHAIN=local GOWORK=off
./build.sh >/dev/null
tier="${2:-${VERIF_TIER:-quick}}"
exec ./bin/shcheck "$1" --tier "$tier"
