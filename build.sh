#!/bin/sh
# Builds /verif/bin/shcheck from /verif/checker with go1.26.8 and x/tools v0.50.0 from the module cache.
set -e
cd "$(dirname "$0")/checker"
export GOFLAGS=-mod=mod GOPROXY=off GOSUMDB=off GOTOOLCHAIN=local GOWORK=off
mkdir -p ../bin ../evidence ../out
go1.26.8 build -o ../bin/shcheck .
echo built ../bin/shcheck
